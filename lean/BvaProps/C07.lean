import BvaProofs.Refine
/-!
# C07 — editing operations behave exactly like edits on a list of bits

For each edit: (1) the L1 model refines the L0 function (`…_refines`: result satisfies the storage invariant,
its abstraction is the L0 result, and it fails — by panicking — exactly when the result would not fit a fixed
capacity; the dynamic and auto types never fail); (2) the L0 function is the list edit on `bits` (index 0 least
significant) — `C07_list_view`.  The operand of `append` / `prepend` / `insert` is a vector of any
implementation, word width and length, including empty.
-/
namespace Bva

/-- what "succeeds with the L0 result, or panics because it does not fit" means -/
def EditOk (v : Vec) (res : Res Vec) (spec : BV) : Prop :=
  (v.fits spec.len → ∃ r, res = .ok r ∧ r.Inv ∧ r.abs = spec ∧ r.ty = v.ty) ∧
  (¬ v.fits spec.len → res = .panic)

theorem C07_push (v : Vec) (hv : v.Inv) (b : Bool) : EditOk v (Api.push v b) (v.abs.push b) := by
  cases v with
  | f w s =>
    constructor
    · intro hfit
      have hc : s.length < s.data.size * w := by
        have : s.length + 1 ≤ s.data.size * w := hfit
        omega
      obtain ⟨r, e, hi, ha, hs⟩ := Bvf.push_ok s b hv.1.pos hv.2 hc
      exact ⟨.f w r, by simp only [Api.push, e, liftF], ⟨hv.1, hi⟩, ha, by simp only [Vec.ty, hs]⟩
    · intro hfit
      have hc : s.data.size * w ≤ s.length := by
        have : ¬ (s.length + 1 ≤ s.data.size * w) := hfit
        omega
      simp only [Api.push, Bvf.push_panic s b hc, liftF]
  | d s =>
    refine ⟨fun _ => ?_, fun h => absurd trivial h⟩
    have r := Bvd.push_refines s b hv
    exact ⟨.d (Bvd.push s b), rfl, r.1, r.2, rfl⟩
  | a c =>
    refine ⟨fun _ => ?_, fun h => absurd trivial h⟩
    obtain ⟨r, e, hi, ha⟩ := Bv.push_ok c b hv.bvinv
    exact ⟨.a r, by simp only [Api.push, e, liftA], Vec.Inv.of_bvinv hi, ha, rfl⟩

theorem C07_pop (v : Vec) (hv : v.Inv) :
    (Api.pop v).1.Inv ∧ ((Api.pop v).1.abs, (Api.pop v).2) = v.abs.pop ∧ (Api.pop v).1.ty = v.ty := by
  cases v with
  | f w s => have r := Raw.pop_refines s hv.1.pos hv.2; exact ⟨⟨hv.1, r.1⟩, r.2.1, by simp only [Api.pop, Vec.ty, r.2.2]⟩
  | d s => have r := Raw.pop_refines s (by decide) hv; exact ⟨r.1, r.2.1, rfl⟩
  | a c => have r := Bv.pop_refines c hv.bvinv; exact ⟨Vec.Inv.of_bvinv r.1, r.2, rfl⟩

theorem C07_set (v : Vec) (hv : v.Inv) (i : Nat) (b : Bool) (hi : i < v.len) :
    (Api.set v i b).Inv ∧ (Api.set v i b).abs = v.abs.set i b ∧ (Api.set v i b).ty = v.ty := by
  cases v with
  | f w s => have r := Raw.set_refines s i b hv.1.pos hv.2 hi; exact ⟨⟨hv.1, r.1⟩, r.2.1, by simp only [Api.set, Vec.mapRaw, Vec.ty, r.2.2]⟩
  | d s => have r := Raw.set_refines s i b (by decide) hv hi; exact ⟨r.1, r.2.1, rfl⟩
  | a c => have r := Bv.set_refines c i b hv.bvinv hi; exact ⟨Vec.Inv.of_bvinv r.1, r.2, rfl⟩

theorem C07_resize (v : Vec) (hv : v.Inv) (n : Nat) (b : Bool) : EditOk v (Api.resize v n b) (v.abs.resize n b) := by
  have hl : (v.abs.resize n b).len = n := BV.resize_len _ _ _
  unfold EditOk
  rw [hl]
  cases v with
  | f w s =>
    constructor
    · intro hfit
      obtain ⟨r, e, hi, ha, hs⟩ := Bvf.resize_ok s n b hv.1.pos hv.2 (Or.inl hfit)
      exact ⟨.f w r, by simp only [Api.resize, e, liftF], ⟨hv.1, hi⟩, ha, by simp only [Vec.ty, hs]⟩
    · intro hfit
      have h1 : s.data.size * w < n := by
        have : ¬ (n ≤ s.data.size * w) := hfit
        omega
      have h2 : s.length < n := Nat.lt_of_le_of_lt hv.2.1 h1
      simp only [Api.resize, Bvf.resize_panic s n b h1 h2, liftF]
  | d s =>
    refine ⟨fun _ => ?_, fun h => absurd trivial h⟩
    have r := Bvd.resize_refines s n b hv
    exact ⟨.d (Bvd.resize s n b), rfl, r.1, r.2, rfl⟩
  | a c =>
    refine ⟨fun _ => ?_, fun h => absurd trivial h⟩
    obtain ⟨r, e, hi, ha⟩ := Bv.resize_ok c n b hv.bvinv
    exact ⟨.a r, by simp only [Api.resize, e, liftA], Vec.Inv.of_bvinv hi, ha, rfl⟩

/-- trait default `truncate` -/
theorem C07_truncate (v : Vec) (hv : v.Inv) (n : Nat) :
    ∃ r, Api.truncate v n = .ok r ∧ r.Inv ∧ r.abs = v.abs.truncate n ∧ r.ty = v.ty := by
  unfold Api.truncate BV.truncate
  rw [Vec.abs_len]
  by_cases h : n < v.len
  · simp only [h, if_true]
    have r := (C07_resize v hv n false).1
    rw [BV.resize_len] at r
    apply r
    cases v with
    | f w s => exact Nat.le_trans (Nat.le_of_lt h) hv.2.1
    | d s => trivial
    | a c => trivial
  · simp only [h, if_false]
    exact ⟨v, rfl, hv, rfl, rfl⟩

/-- trait default `sign_extend`: fills with the previous top bit (zero for an empty vector) -/
theorem C07_sign_extend (v : Vec) (hv : v.Inv) (n : Nat) : EditOk v (Api.signExtend v n) (v.abs.signExtend n) := by
  unfold Api.signExtend BV.signExtend
  rw [Vec.abs_len]
  by_cases h : n > v.len
  · simp only [h, if_true]
    have hs : (if v.len = 0 then false else Api.get v (v.len - 1)) = (decide (v.len > 0) && v.abs.bit (v.len - 1)) := by
      by_cases h0 : v.len = 0
      · simp [h0]
      · have : v.len > 0 := by omega
        simp only [h0, if_false, this, decide_true, Bool.true_and]
        exact Api.get_eq_bit v hv.wpos _
    rw [hs]
    exact C07_resize v hv n _
  · simp only [h, if_false]
    refine ⟨fun _ => ⟨v, rfl, hv, rfl, rfl⟩, fun hf => ?_⟩
    exfalso; apply hf
    cases v with
    | f w s => exact (Vec.abs_len _ ▸ hv.2.1 : (Vec.f w s).abs.len ≤ s.data.size * w)
    | d s => trivial
    | a c => trivial

theorem C07_append (v : Vec) (x : Vec) (hv : v.Inv) (hx : x.Inv) :
    EditOk v (Api.append v x.any) (v.abs.append x.abs) := by
  have hxa := hx.any
  have hxe := Vec.any_abs x
  have hsrc := hxa.src
  have hl : (v.abs.append x.abs).len = v.len + x.any.len := by
    show v.abs.len + x.abs.len = _
    rw [Vec.abs_len, ← hxe, AnyBv.abs_len]
  unfold EditOk
  rw [hl]
  cases v with
  | f w s =>
    constructor
    · intro hfit
      obtain ⟨r, e, hi, ha, hs⟩ := Bvf.append_ok s x.any hv.1.pos hv.1.eight_dvd hv.2 hsrc.1 hfit
      rw [hxe] at ha
      exact ⟨.f w r, by simp only [Api.append, e, liftF], ⟨hv.1, hi⟩, ha, by simp only [Vec.ty, hs]⟩
    · intro hfit
      have hover : s.data.size * w < s.length + x.any.len := by
        have : ¬ (s.length + x.any.len ≤ s.data.size * w) := hfit
        omega
      have hx0 : 0 < x.any.len := by
        have := hv.2.1
        omega
      simp only [Api.append, Bvf.append_panic s x.any hover hx0, liftF]
  | d s =>
    refine ⟨fun _ => ?_, fun h => absurd trivial h⟩
    have r := Bvd.append_refines s x.any hv hsrc.2
    rw [hxe] at r
    exact ⟨.d (Bvd.append s x.any), rfl, r.1, r.2, rfl⟩
  | a c =>
    refine ⟨fun _ => ?_, fun h => absurd trivial h⟩
    obtain ⟨r, e, hi, ha⟩ := Bv.append_ok c x.any hv.bvinv hsrc.1 hsrc.2
    rw [hxe] at ha
    exact ⟨.a r, by simp only [Api.append, e, liftA], Vec.Inv.of_bvinv hi, ha, rfl⟩

theorem C07_prepend (v : Vec) (x : Vec) (hv : v.Inv) (hx : x.Inv) :
    EditOk v (Api.prepend v x.any) (v.abs.prepend x.abs) := by
  have hxa := hx.any
  have hxe := Vec.any_abs x
  have hsrc := hxa.src
  have hl : (v.abs.prepend x.abs).len = v.len + x.any.len := by
    show v.abs.len + x.abs.len = _
    rw [Vec.abs_len, ← hxe, AnyBv.abs_len]
  unfold EditOk
  rw [hl]
  cases v with
  | f w s =>
    constructor
    · intro hfit
      obtain ⟨r, e, hi, ha, hs⟩ := Bvf.prepend_ok s x.any hv.1.pos hv.1.eight_dvd hv.2 hsrc.1 hfit
      rw [hxe] at ha
      exact ⟨.f w r, by simp only [Api.prepend, e, liftF], ⟨hv.1, hi⟩, ha, by simp only [Vec.ty, hs]⟩
    · intro hfit
      have hover : s.data.size * w < s.length + x.any.len := by
        have : ¬ (s.length + x.any.len ≤ s.data.size * w) := hfit
        omega
      have hx0 : 0 < x.any.len := by
        have := hv.2.1
        omega
      simp only [Api.prepend, Bvf.prepend_panic s x.any hover hx0, liftF]
  | d s =>
    refine ⟨fun _ => ?_, fun h => absurd trivial h⟩
    have r := Bvd.prepend_refines s x.any hv hsrc.2
    rw [hxe] at r
    exact ⟨.d (Bvd.prepend s x.any), rfl, r.1, r.2, rfl⟩
  | a c =>
    refine ⟨fun _ => ?_, fun h => absurd trivial h⟩
    obtain ⟨r, e, hi, ha⟩ := Bv.prepend_ok c x.any hv.bvinv hsrc.1 hsrc.2
    rw [hxe] at ha
    exact ⟨.a r, by simp only [Api.prepend, e, liftA], Vec.Inv.of_bvinv hi, ha, rfl⟩

/-- `copy_range` refines the L0 slice (stated again as `C08_copy_range`) -/
theorem C07_copy_range_aux (v : Vec) (hv : v.Inv) (st en : Nat) (hse : st ≤ en) (hen : en ≤ v.len) :
    (Api.copyRange v st en).Inv ∧ (Api.copyRange v st en).abs = v.abs.copyRange st en ∧
    (Api.copyRange v st en).ty = v.ty := by
  cases v with
  | f w s =>
    have r := Bvf.copyRange_refines s st en hv.1.pos hv.2 hse hen
    exact ⟨⟨hv.1, r.1⟩, r.2, by simp only [Api.copyRange, Vec.ty, Bvf.copyRange_size]⟩
  | d s => have r := Bvd.copyRange_refines s st en hse; exact ⟨r.1, r.2, rfl⟩
  | a c => have r := Bv.copyRange_refines c st en hv.bvinv hse hen; exact ⟨Vec.Inv.of_bvinv r.1, r.2, rfl⟩

/-- trait default `split_off(i)`, `i ≤ len`: leaves the low `i` bits, returns the remaining high bits -/
theorem C07_split_off (v : Vec) (hv : v.Inv) (i : Nat) (hi : i ≤ v.len) :
    ∃ lo hi', Api.splitOff v i = .ok (lo, hi') ∧ lo.Inv ∧ hi'.Inv ∧
      (lo.abs, hi'.abs) = v.abs.splitOff i ∧ lo.ty = v.ty ∧ hi'.ty = v.ty := by
  have hc := C07_copy_range_aux v hv i v.len hi (Nat.le_refl _)
  have hr := (C07_resize v hv i false).1
  rw [BV.resize_len] at hr
  have hfit : v.fits i := by
    cases v with
    | f w s => exact Nat.le_trans hi hv.2.1
    | d s => trivial
    | a c => trivial
  obtain ⟨lo, e, hli, hla, hlt⟩ := hr hfit
  refine ⟨lo, Api.copyRange v i v.len, ?_, hli, hc.1, ?_, hlt, hc.2.2⟩
  · simp only [Api.splitOff, e, Res.map]
  · have h1 : v.abs.resize i false = ⟨i, v.abs.val % 2 ^ i⟩ := by
      unfold BV.resize; rw [Vec.abs_len]; simp [hi]
    rw [hla, hc.2.1, h1]
    simp only [BV.splitOff, Vec.abs_len]


/-- trait default `insert(i, x)` = `split_off(i)`, `append(x)`, `append(high part)` -/
theorem C07_insert (v x : Vec) (hv : v.Inv) (hx : x.Inv) (i : Nat) (hi : i ≤ v.len) :
    EditOk v (Api.insert v i x.any) (v.abs.insert i x.abs) := by
  obtain ⟨lo, hi', e, hlo, hhi, hab, tlo, thi⟩ := C07_split_off v hv i hi
  have hwf := Vec.abs_wf hv
  have hla : lo.abs = (v.abs.splitOff i).1 := congrArg Prod.fst hab
  have hha : hi'.abs = (v.abs.splitOff i).2 := congrArg Prod.snd hab
  have hfits : ∀ n, lo.fits n ↔ v.fits n := by
    intro n
    cases v with
    | f w s => cases lo with
      | f w' s' => simp only [Vec.ty, Ty.f.injEq] at tlo; obtain ⟨rfl, e2⟩ := tlo; simp only [Vec.fits, Vec.capOpt, e2]
      | d _ => cases tlo
      | a _ => cases tlo
    | d s => cases lo with
      | f _ _ => cases tlo
      | d _ => exact Iff.rfl
      | a _ => cases tlo
    | a c => cases lo with
      | f _ _ => cases tlo
      | d _ => cases tlo
      | a _ => exact Iff.rfl
  have hspec : v.abs.insert i x.abs = ((v.abs.splitOff i).1.append x.abs).append (v.abs.splitOff i).2 :=
    BV.lv_insert_eq v.abs i x.abs hwf (by rw [Vec.abs_len]; exact hi)
  have h1 := C07_append lo x hlo hx
  rw [hla] at h1
  have hlen1 : ((v.abs.splitOff i).1.append x.abs).len = i + x.abs.len := rfl
  have hlenT : (v.abs.insert i x.abs).len = v.len + x.abs.len := by show v.abs.len + _ = _; rw [Vec.abs_len]
  have hlen2 : (v.abs.splitOff i).2.len = v.len - i := by simp only [BV.splitOff, BV.copyRange, Vec.abs_len]
  constructor
  · intro hfit
    rw [hlenT] at hfit
    have f1 : lo.fits (i + x.abs.len) := (hfits _).mpr (by
      cases v with
      | f w s => exact Nat.le_trans (by omega) (hfit : s.length + x.abs.len ≤ s.data.size * w)
      | d s => trivial
      | a c => trivial)
    obtain ⟨r1, e1, hr1, ha1, t1⟩ := h1.1 (by rw [hlen1]; exact f1)
    have h2 := C07_append r1 hi' hr1 hhi
    rw [ha1, hha] at h2
    have f2 : r1.fits ((((v.abs.splitOff i).1.append x.abs).append (v.abs.splitOff i).2).len) := by
      have e3 : (((v.abs.splitOff i).1.append x.abs).append (v.abs.splitOff i).2).len = v.len + x.abs.len := by
        show (i + x.abs.len) + (v.abs.splitOff i).2.len = _
        rw [hlen2]; omega
      rw [e3]
      cases v with
      | f w s => cases r1 with
        | f w' s' =>
          rw [tlo] at t1
          simp only [Vec.ty, Ty.f.injEq] at t1; obtain ⟨rfl, e2⟩ := t1
          simp only [Vec.fits, Vec.capOpt, e2]; exact hfit
        | d _ => rw [tlo] at t1; cases t1
        | a _ => rw [tlo] at t1; cases t1
      | d s => cases r1 with
        | f _ _ => rw [tlo] at t1; cases t1
        | d _ => trivial
        | a _ => rw [tlo] at t1; cases t1
      | a c => cases r1 with
        | f _ _ => rw [tlo] at t1; cases t1
        | d _ => rw [tlo] at t1; cases t1
        | a _ => trivial
    obtain ⟨r2, e2, hr2, ha2, t2⟩ := h2.1 f2
    refine ⟨r2, ?_, hr2, by rw [ha2, hspec], by rw [t2, t1, tlo]⟩
    simp only [Api.insert, e, Res.bind, e1, e2]
  · intro hfit
    rw [hlenT] at hfit
    -- a fixed subject that cannot hold the result: one of the two appends panics
    cases v with
    | d s => exact absurd trivial hfit
    | a c => exact absurd trivial hfit
    | f w s =>
      have hover : s.data.size * w < s.length + x.abs.len := by
        have : ¬ (s.length + x.abs.len ≤ s.data.size * w) := hfit
        omega
      by_cases hf1 : lo.fits (i + x.abs.len)
      · obtain ⟨r1, e1, hr1, ha1, t1⟩ := h1.1 (by rw [hlen1]; exact hf1)
        have h2 := C07_append r1 hi' hr1 hhi
        rw [ha1, hha] at h2
        have nf2 : ¬ r1.fits ((((Vec.f w s).abs.splitOff i).1.append x.abs).append ((Vec.f w s).abs.splitOff i).2).len := by
          have e3 : ((((Vec.f w s).abs.splitOff i).1.append x.abs).append ((Vec.f w s).abs.splitOff i).2).len = s.length + x.abs.len := by
            show (i + x.abs.len) + ((Vec.f w s).abs.splitOff i).2.len = _
            rw [hlen2]
            have hi2 : i ≤ s.length := hi
            simp only [Vec.len]; omega
          rw [e3]
          cases r1 with
          | f w' s' =>
            rw [tlo] at t1
            simp only [Vec.ty, Ty.f.injEq] at t1; obtain ⟨rfl, e2⟩ := t1
            simp only [Vec.fits, Vec.capOpt, e2]; omega
          | d _ => rw [tlo] at t1; cases t1
          | a _ => rw [tlo] at t1; cases t1
        simp only [Api.insert, e, Res.bind, e1, h2.2 nf2]
      · have := h1.2 (by rw [hlen1]; exact hf1)
        simp only [Api.insert, e, Res.bind, this]

/-- `Extend<Bit>` (reserve the size hint, then push one by one) and `FromIterator<Bit>` -/
theorem C07_extend_pushes (v : Vec) (hv : v.Inv) (bs : List Bool) :
    EditOk v (bs.foldl (fun acc b => acc.bind fun u => Api.push u b) (.ok v)) (v.abs.extend bs) := by
  induction bs generalizing v with
  | nil =>
    refine ⟨fun _ => ⟨v, rfl, hv, rfl, rfl⟩, fun hf => ?_⟩
    exfalso; apply hf
    show v.fits v.abs.len
    rw [Vec.abs_len]
    cases v with
    | f w s => exact hv.2.1
    | d s => trivial
    | a c => trivial
  | cons b bs ih =>
    have hp := C07_push v hv b
    have hlen : ∀ (a : BV) (l : List Bool), (a.extend l).len = a.len + l.length := by
      intro a l
      induction l generalizing a with
      | nil => rfl
      | cons c l ihl => simp only [BV.extend, List.foldl_cons] at ihl ⊢; rw [ihl]; simp only [BV.push, List.length_cons]; omega
    have hstep : (v.abs.extend (b :: bs)) = (v.abs.push b).extend bs := rfl
    rw [hstep]
    simp only [List.foldl_cons, Res.bind]
    by_cases hf : v.fits (v.abs.push b).len
    · obtain ⟨r, e, hr, ha, t⟩ := hp.1 hf
      rw [e]
      have := ih r hr
      rw [ha] at this
      unfold EditOk at this ⊢
      have hfe : ∀ n, r.fits n ↔ v.fits n := by
        intro n
        cases v with
        | f w s => cases r with
          | f w' s' => simp only [Vec.ty, Ty.f.injEq] at t; obtain ⟨rfl, e2⟩ := t; simp only [Vec.fits, Vec.capOpt, e2]
          | d _ => cases t
          | a _ => cases t
        | d s => cases r with
          | f _ _ => cases t
          | d _ => exact Iff.rfl
          | a _ => cases t
        | a c => cases r with
          | f _ _ => cases t
          | d _ => cases t
          | a _ => exact Iff.rfl
      refine ⟨fun h => ?_, fun h => this.2 (fun h' => h ((hfe _).mp h'))⟩
      obtain ⟨r2, e2, h2, a2, t2⟩ := this.1 ((hfe _).mpr h)
      exact ⟨r2, e2, h2, a2, t2.trans t⟩
    · rw [hp.2 hf]
      have hpanic : ∀ l : List Bool, (l.foldl (fun acc b => acc.bind fun u => Api.push u b) (Res.panic : Res Vec)) = .panic := by
        intro l; induction l with
        | nil => rfl
        | cons c l ihl => simp only [List.foldl_cons, Res.bind]; exact ihl
      refine ⟨fun h => ?_, fun _ => hpanic bs⟩
      exfalso; apply hf
      rw [hlen] at h
      cases v with
      | f w s => exact Nat.le_trans (by simp only [BV.push]; omega) (h : _ ≤ s.data.size * w)
      | d s => trivial
      | a c => trivial

/-- `Extend<Bit>::extend(bits)`: the dynamic and auto types reserve the size hint first (which changes nothing
observable), then every type pushes one bit at a time. -/
theorem C07_extend (v : Vec) (hv : v.Inv) (bs : List Bool) (hint : Nat := bs.length) :
    EditOk v (Api.extend v bs hint) (v.abs.extend bs) := by
  cases v with
  | f w s => exact C07_extend_pushes (.f w s) hv bs
  | d s =>
    have r := Bvd.reserve_refines s hint hv
    have h := C07_extend_pushes (.d (Bvd.reserve s hint)) r.1 bs
    have ea : (Vec.d (Bvd.reserve s hint)).abs = (Vec.d s).abs := r.2.1
    rw [ea] at h
    exact h
  | a c =>
    have r := Bv.reserve_refines c hint hv.bvinv
    have h := C07_extend_pushes (.a (c.reserve hint)) (Vec.Inv.of_bvinv r.1) bs
    have ea : (Vec.a (c.reserve hint)).abs = (Vec.a c).abs := r.2.1
    rw [ea] at h
    exact h

/-- `FromIterator<Bit>` (`collect`): `with_capacity(size_hint)` then push — the result is the vector whose
list of bits is the iterator's items; for a fixed type it panics exactly when there are more items than capacity. -/
theorem C07_collect (t : Ty) (ht : match t with | .f w _ => WOk w | _ => True) (bs : List Bool) (hint : Nat) :
    (match t with | .f w N => bs.length ≤ N * w | _ => True) →
    ∃ r, Api.collect t bs hint = .ok r ∧ r.Inv ∧ r.abs = BV.ofBits bs ∧ r.ty = t := by
  intro hfit
  cases t with
  | f w N =>
    obtain ⟨z, ez, hz, az, sz⟩ := Bvf.zeros_ok (w := w) N 0 ht.pos (Nat.zero_le _)
    have hv0 : (Vec.f w z).Inv := ⟨ht, hz⟩
    have h := (C07_extend_pushes (.f w z) hv0 bs).1
    have ea : (Vec.f w z).abs = BV.zeros 0 := az
    rw [ea, BV.extend_zeros_eq_ofBits] at h
    obtain ⟨r, e, hr, ha, tr⟩ := h (by show (BV.ofBits bs).len ≤ z.data.size * w; rw [BV.ofBits_len, sz]; exact hfit)
    refine ⟨r, ?_, hr, ha, by rw [tr]; simp only [Vec.ty, sz]⟩
    simp only [Api.collect, Api.withCapacity, ez, liftF, Res.bind]
    exact e
  | d =>
    have r0 := Bvd.withCapacity_refines hint
    have h := (C07_extend_pushes (.d (Bvd.withCapacity hint)) r0.1 bs).1
    have ea : (Vec.d (Bvd.withCapacity hint)).abs = BV.zeros 0 := r0.2.1
    rw [ea, BV.extend_zeros_eq_ofBits] at h
    obtain ⟨r, e, hr, ha, tr⟩ := h trivial
    exact ⟨r, by simp only [Api.collect, Api.withCapacity, Res.bind]; exact e, hr, ha, tr⟩
  | a =>
    have r0 := Bv.withCapacity_refines hint
    have h := (C07_extend_pushes (.a (Bv.withCapacity hint)) (Vec.Inv.of_bvinv r0.1) bs).1
    have ea : (Vec.a (Bv.withCapacity hint)).abs = BV.zeros 0 := r0.2.1
    rw [ea, BV.extend_zeros_eq_ofBits] at h
    obtain ⟨r, e, hr, ha, tr⟩ := h trivial
    exact ⟨r, by simp only [Api.collect, Api.withCapacity, Res.bind]; exact e, hr, ha, tr⟩

/-- the L0 functions are the list edits (index 0 = least significant bit first) -/
theorem C07_list_view (a x : BV) (ha : a.WF) (hx : x.WF) (b : Bool) (i m : Nat) (bs : List Bool) :
    (a.push b).bits = a.bits ++ [b] ∧
    (a.pop.1.bits = a.bits.dropLast ∧ a.pop.2 = a.bits.getLast?) ∧
    (i < a.len → (a.set i b).bits = a.bits.set i b) ∧
    (a.resize m b).bits = (a.bits ++ List.replicate (m - a.len) b).take m ∧
    (a.truncate m).bits = a.bits.take m ∧
    (a.signExtend m).bits = a.bits ++ List.replicate (m - a.len) (a.bits.getLast?.getD false) ∧
    (a.append x).bits = a.bits ++ x.bits ∧
    (a.prepend x).bits = x.bits ++ a.bits ∧
    (i ≤ a.len → (a.insert i x).bits = a.bits.take i ++ x.bits ++ a.bits.drop i) ∧
    (a.extend bs).bits = a.bits ++ bs ∧
    (BV.ofBits bs).bits = bs :=
  ⟨BV.push_bits a b ha, BV.pop_bits a, fun hi => BV.set_bits a i b hi, BV.resize_bits a m b ha,
   BV.truncate_bits a m, BV.signExtend_bits a m ha, BV.bits_append a x ha, BV.prepend_bits a x hx,
   fun hi => BV.insert_bits a i x ha hx hi, BV.extend_bits a bs ha, BV.ofBits_bits bs⟩

example : (Vec.f 8 ⟨#[0x15#8], 5⟩ : Vec).Inv := ⟨wok8, (Raw.invB_iff _ (by decide)).mp (by decide)⟩

end Bva
