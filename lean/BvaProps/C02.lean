import BvaProofs.Refine
/-!
# C02 — division and remainder are exact for every non-zero divisor; a zero divisor panics

`Api.divRemOp v x` models `/`, `%`, `/=`, `%=` in every form (all of them project `div_rem`; for a `Bv`
subject the operators dispatch on the storage variant and call the variant's `div_rem`);
`Api.divRem v x` models the public trait method `div_rem::<B>(&x)` (for a `Bv` subject: `Bv::div_rem`,
a third, separately written body).  The shift-subtract loop is proved to compute `⌊a/b⌋` and `a mod b`
(`BvaProofs/Div.lean`), for a divisor of any implementation, word width and length — including
longer than the dividend and longer than a fixed dividend's capacity (repair D1: the `expect` in
`Bvf::div_rem` is proved unreachable) — or a native integer.
-/
namespace Bva

theorem AnyBv.Inv.div {x : AnyBv} (h : x.Inv) : div_AnyInv x := by
  cases x with
  | f w b => exact ⟨h.1.pos, h.2⟩
  | d b => exact h

theorem AnyBv.Inv.compat {x : AnyBv} (h : x.Inv) {w : Nat} (hw : WOk w) : Compat (div_anyW x) w := by
  cases x with
  | f w1 b => exact h.1.compat hw
  | d b => exact wok64.compat hw

/-- L0: for a non-zero divisor the quotient and remainder satisfy `q·b + r = a` and `r < b`,
have the dividend's length, and are well-formed. -/
theorem C02_spec_divrem (a x : BV) (ha : a.WF) (hx : x.val ≠ 0) :
    (a.div x).val * x.val + (a.rem x).val = a.val ∧ (a.rem x).val < x.val ∧
    (a.div x).len = a.len ∧ (a.rem x).len = a.len ∧ (a.div x).WF ∧ (a.rem x).WF := by
  unfold BV.div BV.rem BV.WF at *
  simp only
  have hpos : 0 < x.val := Nat.pos_of_ne_zero hx
  refine ⟨by rw [Nat.mul_comm]; exact Nat.div_add_mod a.val x.val, Nat.mod_lt _ hpos, trivial, trivial, ?_, ?_⟩
  · exact Nat.lt_of_le_of_lt (Nat.div_le_self _ _) ha
  · exact Nat.lt_of_le_of_lt (Nat.mod_le _ _) ha

/-- `/`, `%`, `/=`, `%=` — every implementation of the dividend, every kind of divisor:
a zero-valued (or empty) divisor panics, any other divisor yields exactly `⌊a/b⌋` and `a mod b` at the
dividend's type and length, with the storage invariant re-established. -/
theorem C02_operators (v : Vec) (x : Api.Rhs) (hv : v.Inv) (hx : x.Inv) :
    (x.spec.val = 0 → Api.divRemOp v x = .panic) ∧
    (x.spec.val ≠ 0 → ∃ q r, Api.divRemOp v x = .ok (q, r) ∧ q.Inv ∧ r.Inv ∧
        q.abs = v.abs.div x.spec ∧ r.abs = v.abs.rem x.spec ∧ q.ty = v.ty ∧ r.ty = v.ty) := by
  obtain ⟨hxa, hxe⟩ := Api.Rhs.any_ok v x hx
  unfold Api.divRemOp Api.divRemK
  cases v with
  | f w s =>
    have r := Bvf.divRem_refines s x.kind (x.any (.f w s)) hv.1.two_le hv.2 hxa.div (hxa.compat hv.1)
    rw [hxe] at r
    refine ⟨fun h0 => by simp only [r.1 h0, Res.map], fun hn => ?_⟩
    obtain ⟨q, rr, e, hq, hr, aq, ar, sq, sr⟩ := r.2 hn
    exact ⟨.f w q, .f w rr, by simp only [e, Res.map], ⟨hv.1, hq⟩, ⟨hv.1, hr⟩, aq, ar,
      by simp only [Vec.ty, sq], by simp only [Vec.ty, sr]⟩
  | d s =>
    have r := Bvd.divRem_refines' s (x.any (.d s)) hv hxa.div (hxa.compat wok64)
    rw [hxe] at r
    refine ⟨fun h0 => by simp only [r.1 h0, Res.map], fun hn => ?_⟩
    obtain ⟨q, rr, e, hq, hr, aq, ar⟩ := r.2 hn
    exact ⟨.d q, .d rr, by simp only [e, Res.map], hq, hr, aq, ar, rfl, rfl⟩
  | a b =>
    cases b with
    | fixed s =>
      have r := Bvf.divRem_refines s x.kind (x.any (.a (.fixed s))) (by decide) hv.1 hxa.div (hxa.compat wok64)
      rw [hxe] at r
      refine ⟨fun h0 => by simp only [r.1 h0, Res.map], fun hn => ?_⟩
      obtain ⟨q, rr, e, hq, hr, aq, ar, sq, sr⟩ := r.2 hn
      exact ⟨.a (.fixed q), .a (.fixed rr), by simp only [e, Res.map], ⟨hq, sq.trans hv.2⟩, ⟨hr, sr.trans hv.2⟩, aq, ar, rfl, rfl⟩
    | dynamic s =>
      have r := Bvd.divRem_refines' s (x.any (.a (.dynamic s))) hv hxa.div (hxa.compat wok64)
      rw [hxe] at r
      refine ⟨fun h0 => by simp only [r.1 h0, Res.map], fun hn => ?_⟩
      obtain ⟨q, rr, e, hq, hr, aq, ar⟩ := r.2 hn
      exact ⟨.a (.dynamic q), .a (.dynamic rr), by simp only [e, Res.map], hq, hr, aq, ar, rfl, rfl⟩

theorem Vec.Inv.bv {b : Bv} (h : (Vec.a b).Inv) : div_BvInv b := by
  cases b with
  | fixed s => exact h
  | dynamic s => exact h

theorem Vec.inv_of_div_bv {b : Bv} (h : div_BvInv b) : (Vec.a b).Inv := by
  cases b with
  | fixed s => exact h
  | dynamic s => exact h

/-- the public trait method `div_rem::<B>` with a divisor of any implementation `B` (including `B = Bv`). -/
theorem C02_div_rem (v x : Vec) (hv : v.Inv) (hx : x.Inv) :
    (x.abs.val = 0 → Api.divRem v x = .panic) ∧
    (x.abs.val ≠ 0 → ∃ q r, Api.divRem v x = .ok (q, r) ∧ q.Inv ∧ r.Inv ∧
        q.abs = v.abs.div x.abs ∧ r.abs = v.abs.rem x.abs) := by
  have hxa := hx.any
  have hxe := Vec.any_abs x
  cases v with
  | a b =>
    have hk : x.kind = .bv → ∀ w1 (c : Raw w1), x.any = .f w1 c → w1 = 64 ∧ c.data.size = 2 := by
      intro hkind w1 c hc
      cases x with
      | f w r => cases hkind
      | d r => cases hkind
      | a y =>
        cases y with
        | fixed r =>
          simp only [Vec.any, Bv.any] at hc
          cases hc
          exact ⟨rfl, hx.2⟩
        | dynamic r => simp only [Vec.any, Bv.any] at hc; cases hc
    have r := Bv.divRem_refines b x.kind x.any (Vec.Inv.bv hv) hxa.div (hxa.compat wok64) hk
    rw [hxe] at r
    unfold Api.divRem
    refine ⟨fun h0 => by simp only [r.1 h0, Res.map], fun hn => ?_⟩
    obtain ⟨q, rr, e, hq, hr, aq, ar⟩ := r.2 hn
    exact ⟨.a q, .a rr, by simp only [e, Res.map], Vec.inv_of_div_bv hq, Vec.inv_of_div_bv hr, aq, ar⟩
  | f w s =>
    have r := Bvf.divRem_refines s x.kind x.any hv.1.two_le hv.2 hxa.div (hxa.compat hv.1)
    rw [hxe] at r
    unfold Api.divRem Api.divRemK
    refine ⟨fun h0 => by simp only [r.1 h0, Res.map], fun hn => ?_⟩
    obtain ⟨q, rr, e, hq, hr, aq, ar, _, _⟩ := r.2 hn
    exact ⟨.f w q, .f w rr, by simp only [e, Res.map], ⟨hv.1, hq⟩, ⟨hv.1, hr⟩, aq, ar⟩
  | d s =>
    have r := Bvd.divRem_refines' s x.any hv hxa.div (hxa.compat wok64)
    rw [hxe] at r
    unfold Api.divRem Api.divRemK
    refine ⟨fun h0 => by simp only [r.1 h0, Res.map], fun hn => ?_⟩
    obtain ⟨q, rr, e, hq, hr, aq, ar⟩ := r.2 hn
    exact ⟨.d q, .d rr, by simp only [e, Res.map], hq, hr, aq, ar⟩

/-- defect D1's input: 200 / 3 on an 8-bit vector with a 64-bit divisor -/
example : (BV.div ⟨8, 200⟩ ⟨64, 3⟩, BV.rem ⟨8, 200⟩ ⟨64, 3⟩) = (⟨8, 66⟩, ⟨8, 2⟩) := by decide
example : (Vec.f 8 ⟨#[200#8], 8⟩ : Vec).Inv ∧ (Api.Rhs.uint 64 3).Inv ∧ (Api.Rhs.uint 64 3).spec.val ≠ 0 :=
  ⟨⟨wok8, (Raw.invB_iff _ (by decide)).mp (by decide)⟩, ⟨wok64, by decide, by decide⟩, by decide⟩

end Bva
