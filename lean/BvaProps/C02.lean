import BvaProofs.Base
import BvaModel.Step
/-!
# C02 — division and remainder are exact for every non-zero divisor; a zero divisor panics
(status: the L0 facts and the zero-divisor panic are proved here; the refinement of the shift-subtract
loop to `BV.div`/`BV.rem` is assembled in a later revision — see DESIGN.md.)
-/
namespace Bva

/-- L0: for a non-zero divisor the quotient and remainder satisfy `q·b + r = a` and `r < b`,
have the dividend's length, and are well-formed. -/
theorem C02_spec_divrem (a x : BV) (ha : a.WF) (hx : x.val ≠ 0) :
    (a.div x).val * x.val + (a.rem x).val = a.val ∧ (a.rem x).val < x.val ∧
    (a.div x).len = a.len ∧ (a.rem x).len = a.len ∧ (a.div x).WF ∧ (a.rem x).WF := by
  unfold BV.div BV.rem BV.WF at *
  simp only
  have hpos : 0 < x.val := Nat.pos_of_ne_zero hx
  refine ⟨by rw [Nat.mul_comm]; exact Nat.div_add_mod a.val x.val, Nat.mod_lt _ hpos, trivial, trivial, ?_, ?_⟩
  · exact Nat.lt_of_le_of_lt (Nat.div_le_self _ _) ha
  · exact Nat.lt_of_le_of_lt (Nat.mod_le _ _) ha

/-- L1: a divisor whose value is zero makes every `div_rem` body panic (Bvf, Bvd, Bv). The zero test
is the model of `assert!(!divisor.is_zero())`; `AnyBv.isZero` is proved equal to `val = 0` in C16. -/
theorem C02_zero_panics_bvf {w : Nat} (s : Raw w) (k : SrcKind) (x : AnyBv) (hz : x.isZero = true) :
    Bvf.divRem s k x = .panic := by
  unfold Bvf.divRem; simp [hz]

theorem C02_zero_panics_bvd (s : Raw 64) (x : AnyBv) (hz : x.isZero = true) :
    Bvd.divRem s x = .panic := by
  unfold Bvd.divRem; simp [hz]

theorem C02_zero_panics_bv (s : Bv) (k : SrcKind) (x : AnyBv) (hz : x.isZero = true) :
    Bv.divRem s k x = .panic := by
  unfold Bv.divRem; simp [hz]

example : (BV.div ⟨8, 200⟩ ⟨64, 3⟩, BV.rem ⟨8, 200⟩ ⟨64, 3⟩) = (⟨8, 66⟩, ⟨8, 2⟩) := by decide
end Bva
