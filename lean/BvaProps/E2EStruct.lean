import BvaProps.Laws
import BvaProps.C07
import BvaProps.C08
import BvaProps.C18
import BvaProps.C09
import BvaProps.C10
import BvaProps.C11
import BvaProps.C12
import BvaProps.C13
import BvaProps.C15
import BvaProps.C17
/-!
# E2E (structure and conversion) — end-to-end theorems about sequences of API calls on the code model

Each theorem chains the refinement theorems `Cxx_*` (which also give `Inv` of intermediate results) with the
L0 laws `Law_*`, and is stated for every implementation (`Vec.f`, `Vec.d`, `Vec.a`) and every stored representation.
-/
namespace Bva

/-- the abstraction of a vector satisfying the storage invariant is well formed (`val < 2^len`) -/
theorem E2E_aux_wf (v : Vec) (hv : v.Inv) : v.abs.WF := by
  have := hv.any.wf; rwa [Vec.any_abs] at this

/-- a vector always fits its own length -/
theorem E2E_aux_fits_self (v : Vec) (hv : v.Inv) : v.fits v.len := by
  cases v with
  | f w s => exact hv.2.1
  | d s => trivial
  | a c => trivial

/-- fitting is monotone -/
theorem E2E_aux_fits_mono (v : Vec) (n m : Nat) (h : n ≤ m) (hm : v.fits m) : v.fits n := by
  cases v with
  | f w s => exact Nat.le_trans h hm
  | d s => trivial
  | a c => trivial

/-- `fits` depends only on the type of the vector -/
theorem E2E_aux_fits_ty (v r : Vec) (h : r.ty = v.ty) (n : Nat) (hn : v.fits n) : r.fits n := by
  cases v with
  | f w s =>
    cases r with
    | f w' s' =>
      simp only [Vec.ty, Ty.f.injEq] at h
      obtain ⟨rfl, h2⟩ := h
      show n ≤ s'.data.size * w'
      rw [h2]; exact hn
    | d s' => trivial
    | a c' => trivial
  | d s => cases r <;> trivial
  | a c => cases r <;> trivial

/-- three small concrete vectors (fixed 8-bit words, dynamic, auto/inline) used to instantiate the theorems below -/
theorem E2E_ex_f : (Vec.f 8 ⟨#[0x15#8, 0#8], 5⟩ : Vec).Inv := ⟨wok8, (Raw.invB_iff _ (by decide)).mp (by decide)⟩
theorem E2E_ex_d : (Vec.d ⟨#[0x2D#64], 7⟩ : Vec).Inv := (Raw.invB_iff _ (by decide)).mp (by decide)
theorem E2E_ex_a : (Vec.a (.fixed ⟨#[0x1D#64, 0#64], 6⟩) : Vec).Inv := ⟨(Raw.invB_iff _ (by decide)).mp (by decide), rfl⟩

-- 1. push / pop -------------------------------------------------------------------------------------------

/-- `push(b)` then `pop()` gives back the original vector and `Some(b)` (whenever the push fits) -/
theorem E2E_push_pop (v : Vec) (hv : v.Inv) (b : Bool) (hfit : v.fits (v.len + 1)) :
    ∃ r, Api.push v b = .ok r ∧ r.Inv ∧ (Api.pop r).1.Inv ∧ (Api.pop r).1.abs = v.abs ∧ (Api.pop r).2 = some b ∧
      (Api.pop r).1.ty = v.ty := by
  have hl : (v.abs.push b).len = v.len + 1 := by show v.abs.len + 1 = _; rw [Vec.abs_len]
  obtain ⟨r, e, hr, ha, ht⟩ := (C07_push v hv b).1 (by rw [hl]; exact hfit)
  have hp := C07_pop r hr
  have hlaw := Law_push_pop v.abs b (E2E_aux_wf v hv)
  rw [ha, hlaw] at hp
  have h2 := hp.2.1
  simp only [Prod.mk.injEq] at h2
  exact ⟨r, e, hr, hp.1, h2.1, h2.2, hp.2.2.trans ht⟩

/-- `pop()` then `push` of the popped bit gives back the original non-empty vector (it always fits) -/
theorem E2E_pop_push (v : Vec) (hv : v.Inv) (hl : 0 < v.len) :
    ∃ b r, (Api.pop v).2 = some b ∧ Api.push (Api.pop v).1 b = .ok r ∧ r.Inv ∧ r.abs = v.abs ∧ r.ty = v.ty := by
  have hp := C07_pop v hv
  obtain ⟨b, h1, h2⟩ := Law_pop_push v.abs (E2E_aux_wf v hv) (by rw [Vec.abs_len]; exact hl)
  have h3 := hp.2.1
  have e1 : (Api.pop v).1.abs = v.abs.pop.1 := congrArg Prod.fst h3
  have e2 : (Api.pop v).2 = v.abs.pop.2 := congrArg Prod.snd h3
  have hpush := C07_push (Api.pop v).1 hp.1 b
  rw [e1, h2] at hpush
  have hfit : (Api.pop v).1.fits v.abs.len := by
    rw [Vec.abs_len]
    exact E2E_aux_fits_ty v _ hp.2.2 _ (E2E_aux_fits_self v hv)
  obtain ⟨r, e, hr, ha, ht⟩ := hpush.1 hfit
  exact ⟨b, r, e2.trans h1, e, hr, ha, ht.trans hp.2.2⟩

example := E2E_push_pop _ E2E_ex_f true (by show 5 + 1 ≤ 2 * 8; decide)
example := E2E_pop_push _ E2E_ex_a (by decide)

-- 2. append / split_off, resize, sign_extend / truncate ------------------------------------------------

/-- `append(x)` then `split_off(old length)` gives back the original vector and the operand's bits, for an operand
`x` of any implementation (whenever the append fits) -/
theorem E2E_append_split_off (v x : Vec) (hv : v.Inv) (hx : x.Inv) (hfit : v.fits (v.len + x.len)) :
    ∃ r lo hi, Api.append v x.any = .ok r ∧ r.Inv ∧ Api.splitOff r v.len = .ok (lo, hi) ∧ lo.Inv ∧ hi.Inv ∧
      lo.abs = v.abs ∧ hi.abs = x.abs ∧ lo.ty = v.ty ∧ hi.ty = v.ty := by
  have hl : (v.abs.append x.abs).len = v.len + x.len := by
    show v.abs.len + x.abs.len = _; rw [Vec.abs_len, Vec.abs_len]
  obtain ⟨r, e, hr, ha, ht⟩ := (C07_append v x hv hx).1 (by rw [hl]; exact hfit)
  have hrl : r.len = v.len + x.len := by rw [← Vec.abs_len, ha, hl]
  obtain ⟨lo, hi, e2, hlo, hhi, hab, hlt, hht⟩ := C07_split_off r hr v.len (by omega)
  have hlaw := Law_append_split v.abs x.abs (E2E_aux_wf v hv) (E2E_aux_wf x hx)
  rw [ha, ← Vec.abs_len v, hlaw] at hab
  simp only [Prod.mk.injEq] at hab
  refine ⟨r, lo, hi, e, hr, ?_, hlo, hhi, hab.1, hab.2, hlt.trans ht, hht.trans ht⟩
  exact e2

/-- `split_off(i)` then `append` of the split-off part gives back the original vector -/
theorem E2E_split_off_append (v : Vec) (hv : v.Inv) (i : Nat) (hi : i ≤ v.len) :
    ∃ lo hi' r, Api.splitOff v i = .ok (lo, hi') ∧ Api.append lo hi'.any = .ok r ∧ r.Inv ∧ r.abs = v.abs ∧ r.ty = v.ty := by
  obtain ⟨lo, hi', e, hlo, hhi, hab, hlt, hht⟩ := C07_split_off v hv i hi
  have hlaw := Law_split_append v.abs i (E2E_aux_wf v hv) (by rw [Vec.abs_len]; exact hi)
  rw [← hab] at hlaw
  simp only at hlaw
  have happ := C07_append lo hi' hlo hhi
  rw [hlaw] at happ
  obtain ⟨r, e2, hr, ha, ht⟩ := happ.1 (by rw [Vec.abs_len]; exact E2E_aux_fits_ty v lo hlt _ (E2E_aux_fits_self v hv))
  exact ⟨lo, hi', r, e, e2, hr, ha, ht.trans hlt⟩

/-- `resize` up to `m` (with any fill bit) then `resize` back down to the old length gives back the original -/
theorem E2E_resize_up_down (v : Vec) (hv : v.Inv) (m : Nat) (b c : Bool) (hm : v.len ≤ m) (hfit : v.fits m) :
    ∃ r r', Api.resize v m b = .ok r ∧ r.Inv ∧ Api.resize r v.len c = .ok r' ∧ r'.Inv ∧ r'.abs = v.abs ∧ r'.ty = v.ty := by
  obtain ⟨r, e, hr, ha, ht⟩ := (C07_resize v hv m b).1 (by rw [BV.resize_len]; exact hfit)
  have h2 := C07_resize r hr v.len c
  have hlaw := Law_resize_resize_grow_shrink v.abs m b c (E2E_aux_wf v hv) (by rw [Vec.abs_len]; exact hm)
  rw [ha, ← Vec.abs_len v, hlaw] at h2
  obtain ⟨r', e', hr', ha', ht'⟩ := h2.1 (by rw [Vec.abs_len]; exact E2E_aux_fits_ty v r ht _ (E2E_aux_fits_self v hv))
  refine ⟨r, r', e, hr, ?_, hr', ha', ht'.trans ht⟩
  rw [← Vec.abs_len v]; exact e'

/-- L0: truncating a sign extension back to the old length gives back the original -/
theorem E2E_aux_signExtend_truncate (a : BV) (ha : a.WF) (m : Nat) : (a.signExtend m).truncate a.len = a := by
  by_cases h : m > a.len
  · have e : a.signExtend m = a.resize m (decide (a.len > 0) && a.bit (a.len - 1)) := by
      unfold BV.signExtend; rw [if_pos h]
    rw [e]
    generalize (decide (a.len > 0) && a.bit (a.len - 1)) = s
    unfold BV.truncate
    rw [BV.resize_len, if_pos h]
    exact Law_resize_resize_grow_shrink a m s false ha (by omega)
  · have e : a.signExtend m = a := by unfold BV.signExtend; rw [if_neg h]
    rw [e]
    unfold BV.truncate
    rw [if_neg (Nat.lt_irrefl _)]

/-- `sign_extend(m)` then `truncate(old length)` gives back the original vector -/
theorem E2E_sign_extend_truncate (v : Vec) (hv : v.Inv) (m : Nat) (hfit : v.fits m) :
    ∃ r r', Api.signExtend v m = .ok r ∧ r.Inv ∧ Api.truncate r v.len = .ok r' ∧ r'.Inv ∧ r'.abs = v.abs ∧ r'.ty = v.ty := by
  have hfit' : v.fits (v.abs.signExtend m).len := by
    unfold BV.signExtend
    split
    · rw [BV.resize_len]; exact hfit
    · rw [Vec.abs_len]; exact E2E_aux_fits_self v hv
  obtain ⟨r, e, hr, ha, ht⟩ := (C07_sign_extend v hv m).1 hfit'
  obtain ⟨r', e', hr', ha', ht'⟩ := C07_truncate r hr v.len
  rw [ha, ← Vec.abs_len v, E2E_aux_signExtend_truncate v.abs (E2E_aux_wf v hv) m] at ha'
  exact ⟨r, r', e, hr, e', hr', ha', ht'.trans ht⟩

example := E2E_append_split_off _ _ E2E_ex_d E2E_ex_f trivial
example := E2E_append_split_off _ _ E2E_ex_f E2E_ex_d (by show 5 + 7 ≤ 2 * 8; decide)
example := E2E_resize_up_down _ E2E_ex_f 13 true false (by decide) (by show 13 ≤ 2 * 8; decide)
example := E2E_sign_extend_truncate _ E2E_ex_a 100 trivial

-- 3. get / set, slices of an append -------------------------------------------------------------------

/-- `get(i)` after `set(i, b)` reads `b`; every other index reads what it read before -/
theorem E2E_set_get (v : Vec) (hv : v.Inv) (i : Nat) (b : Bool) (hi : i < v.len) :
    (Api.set v i b).Inv ∧ Api.get (Api.set v i b) i = b ∧ ∀ j, j ≠ i → Api.get (Api.set v i b) j = Api.get v j := by
  have h := C07_set v hv i b hi
  have hl := Law_set_get v.abs i b
  refine ⟨h.1, ?_, fun j hj => ?_⟩
  · rw [Api.get_eq_bit _ h.1.wpos, h.2.1]; exact hl.1
  · rw [Api.get_eq_bit _ h.1.wpos, h.2.1, Api.get_eq_bit _ hv.wpos]; exact hl.2 j hj

/-- `set(i, b)` then `set(i, c)` is `set(i, c)` -/
theorem E2E_set_set (v : Vec) (hv : v.Inv) (i : Nat) (b c : Bool) (hi : i < v.len) :
    (Api.set (Api.set v i b) i c).Inv ∧ (Api.set (Api.set v i b) i c).abs = (Api.set v i c).abs := by
  have h1 := C07_set v hv i b hi
  have hl1 : (Api.set v i b).len = v.len := by rw [← Vec.abs_len, h1.2.1]; exact Vec.abs_len v
  have h2 := C07_set _ h1.1 i c (by omega)
  have h3 := C07_set v hv i c hi
  exact ⟨h2.1, by rw [h2.2.1, h1.2.1, h3.2.1, Law_set_set]⟩

/-- two `set`s at different indices commute -/
theorem E2E_set_comm (v : Vec) (hv : v.Inv) (i j : Nat) (b c : Bool) (hi : i < v.len) (hj : j < v.len) (hij : i ≠ j) :
    (Api.set (Api.set v i b) j c).abs = (Api.set (Api.set v j c) i b).abs := by
  have h1 := C07_set v hv i b hi
  have hl1 : (Api.set v i b).len = v.len := by rw [← Vec.abs_len, h1.2.1]; exact Vec.abs_len v
  have h2 := C07_set _ h1.1 j c (by omega)
  have h3 := C07_set v hv j c hj
  have hl3 : (Api.set v j c).len = v.len := by rw [← Vec.abs_len, h3.2.1]; exact Vec.abs_len v
  have h4 := C07_set _ h3.1 i b (by omega)
  rw [h2.2.1, h1.2.1, h4.2.1, h3.2.1, Law_set_comm _ _ _ _ _ hij]

/-- writing back the bit that was read changes nothing -/
theorem E2E_set_same (v : Vec) (hv : v.Inv) (i : Nat) (hi : i < v.len) :
    (Api.set v i (Api.get v i)).abs = v.abs := by
  rw [(C07_set v hv i _ hi).2.1, Api.get_eq_bit _ hv.wpos, Law_set_same]

/-- L0: the low slice of an append is the left operand -/
theorem E2E_aux_append_low (a b : BV) (ha : a.WF) (hb : b.WF) : (a.append b).copyRange 0 a.len = a := by
  have h := congrArg Prod.fst (Law_append_split a b ha hb)
  simp only [BV.splitOff] at h
  unfold BV.copyRange
  simp only [Nat.sub_zero, Nat.shiftRight_zero]
  exact h

/-- L0: the high slice of an append is the right operand -/
theorem E2E_aux_append_high (a b : BV) (ha : a.WF) (hb : b.WF) : (a.append b).copyRange a.len (a.len + b.len) = b :=
  congrArg Prod.snd (Law_append_split a b ha hb)

/-- after `append(x)`, `copy_range(0..old length)` is the original vector and `copy_range(old length..new length)`
is the operand -/
theorem E2E_append_copy_range (v x : Vec) (hv : v.Inv) (hx : x.Inv) (hfit : v.fits (v.len + x.len)) :
    ∃ r, Api.append v x.any = .ok r ∧ r.Inv ∧ r.len = v.len + x.len ∧
      (Api.copyRange r 0 v.len).Inv ∧ (Api.copyRange r 0 v.len).abs = v.abs ∧
      (Api.copyRange r v.len r.len).Inv ∧ (Api.copyRange r v.len r.len).abs = x.abs := by
  have hl : (v.abs.append x.abs).len = v.len + x.len := by
    show v.abs.len + x.abs.len = _; rw [Vec.abs_len, Vec.abs_len]
  obtain ⟨r, e, hr, ha, ht⟩ := (C07_append v x hv hx).1 (by rw [hl]; exact hfit)
  have hrl : r.len = v.len + x.len := by rw [← Vec.abs_len, ha, hl]
  have c1 := C08_copy_range r hr 0 v.len (Nat.zero_le _) (by omega)
  have c2 := C08_copy_range r hr v.len r.len (by omega) (Nat.le_refl _)
  refine ⟨r, e, hr, hrl, c1.1, ?_, c2.1, ?_⟩
  · rw [c1.2.1, ha, ← Vec.abs_len v]; exact E2E_aux_append_low _ _ (E2E_aux_wf v hv) (E2E_aux_wf x hx)
  · rw [c2.2.1, ha, hrl, ← Vec.abs_len v, ← Vec.abs_len x]
    exact E2E_aux_append_high _ _ (E2E_aux_wf v hv) (E2E_aux_wf x hx)

/-- slicing a slice is slicing once with shifted bounds -/
theorem E2E_copy_range_copy_range (v : Vec) (hv : v.Inv) (s e s' e' : Nat) (hse : s ≤ e) (he : e ≤ v.len)
    (hse' : s' ≤ e') (he' : e' ≤ e - s) :
    (Api.copyRange (Api.copyRange v s e) s' e').Inv ∧
    (Api.copyRange (Api.copyRange v s e) s' e').abs = (Api.copyRange v (s + s') (s + e')).abs := by
  have c1 := C08_copy_range v hv s e hse he
  have hl : (Api.copyRange v s e).len = e - s := by rw [← Vec.abs_len, c1.2.1]; rfl
  have c2 := C08_copy_range _ c1.1 s' e' hse' (by omega)
  have c3 := C08_copy_range v hv (s + s') (s + e') (by omega) (by omega)
  exact ⟨c2.1, by rw [c2.2.1, c1.2.1, c3.2.1, Law_copyRange_copyRange _ _ _ _ _ he']⟩

/-- the full slice is a copy of the vector -/
theorem E2E_copy_range_full (v : Vec) (hv : v.Inv) :
    (Api.copyRange v 0 v.len).Inv ∧ (Api.copyRange v 0 v.len).abs = v.abs := by
  have c := C08_copy_range v hv 0 v.len (Nat.zero_le _) (Nat.le_refl _)
  refine ⟨c.1, ?_⟩
  rw [c.2.1, ← Vec.abs_len v]; exact Law_copyRange_full _ (E2E_aux_wf v hv)

example := E2E_set_get _ E2E_ex_f 3 true (by decide)
example : Api.get (Api.set (.f 8 ⟨#[0x15#8, 0#8], 5⟩) 3 true) 3 = true := by decide
example := E2E_append_copy_range _ _ E2E_ex_f E2E_ex_a (by show 5 + 6 ≤ 2 * 8; decide)

-- 4. conversions between implementations, comparison, hashing, integers ------------------------------

/-- the word width of a fixed type is one of 8, 16, 32, … (nothing to check for the other types) -/
def E2E_TyOk (t : Ty) : Prop := match t with | .f w _ => WOk w | _ => True
/-- a length fits the capacity of a type -/
def E2E_TyFits (t : Ty) (n : Nat) : Prop := match t with | .f w N => n ≤ N * w | _ => True

/-- a conversion that fits succeeds and keeps `abs` (uniform restatement of `C12_convert`) -/
theorem E2E_aux_convert (t : Ty) (src : Vec) (hs : src.Inv) (ht : E2E_TyOk t) (hfit : E2E_TyFits t src.len) :
    ∃ r, Api.convert t src = .ok r ∧ r.Inv ∧ r.abs = src.abs ∧ r.ty = t := by
  have c := C12_convert t src hs ht
  cases t with
  | f w N => exact c.2 hfit
  | d => exact c
  | a => exact c

/-- a successful conversion has the invariant, the same `abs`, and the requested type -/
theorem E2E_aux_convert_ok (t : Ty) (src r : Vec) (hs : src.Inv) (ht : E2E_TyOk t) (h : Api.convert t src = .ok r) :
    r.Inv ∧ r.abs = src.abs ∧ r.ty = t := by
  have c := C12_convert t src hs ht
  cases t with
  | f w N =>
    simp only at c
    by_cases hf : src.len ≤ N * w
    · obtain ⟨r', e, hi, ha, hty⟩ := c.2 hf
      rw [h] at e; cases e; exact ⟨hi, ha, hty⟩
    · have := c.1 (by omega); rw [h] at this; cases this
  | d => obtain ⟨r', e, hi, ha, hty⟩ := c; rw [h] at e; cases e; exact ⟨hi, ha, hty⟩
  | a => obtain ⟨r', e, hi, ha, hty⟩ := c; rw [h] at e; cases e; exact ⟨hi, ha, hty⟩

/-- the type of a vector with the invariant is a legal type, and the vector fits it -/
theorem E2E_aux_own_ty (v : Vec) (hv : v.Inv) : E2E_TyOk v.ty ∧ E2E_TyFits v.ty v.len := by
  cases v with
  | f w s => exact ⟨hv.1, hv.2.1⟩
  | d s => exact ⟨trivial, trivial⟩
  | a c => exact ⟨trivial, trivial⟩

/-- converting to any implementation (that has room) and back to the original type always succeeds and keeps `abs` -/
theorem E2E_convert_roundtrip (t : Ty) (v : Vec) (hv : v.Inv) (ht : E2E_TyOk t) (hfit : E2E_TyFits t v.len) :
    ∃ r r', Api.convert t v = .ok r ∧ r.Inv ∧ r.ty = t ∧ Api.convert v.ty r = .ok r' ∧ r'.Inv ∧ r'.abs = v.abs ∧
      r'.ty = v.ty := by
  obtain ⟨r, e, hr, ha, hty⟩ := E2E_aux_convert t v hv ht hfit
  have hl : r.len = v.len := by rw [← Vec.abs_len, ha, Vec.abs_len]
  obtain ⟨r', e', hr', ha', hty'⟩ := E2E_aux_convert v.ty r hr (E2E_aux_own_ty v hv).1 (by rw [hl]; exact (E2E_aux_own_ty v hv).2)
  exact ⟨r, r', e, hr, hty, e', hr', ha'.trans ha, hty'⟩

/-- a chain of two conversions keeps `abs` (whatever the intermediate implementation) -/
theorem E2E_convert_convert (t t' : Ty) (v r r' : Vec) (hv : v.Inv) (ht : E2E_TyOk t) (ht' : E2E_TyOk t')
    (h : Api.convert t v = .ok r) (h' : Api.convert t' r = .ok r') : r'.Inv ∧ r'.abs = v.abs ∧ r'.ty = t' := by
  have c := E2E_aux_convert_ok t v r hv ht h
  have c' := E2E_aux_convert_ok t' r r' c.1 ht' h'
  exact ⟨c'.1, c'.2.1.trans c.2.1, c'.2.2⟩

/-- a converted vector compares equal to the original, in both operand orders, across implementations -/
theorem E2E_convert_eq (t : Ty) (v r : Vec) (hv : v.Inv) (ht : E2E_TyOk t) (h : Api.convert t v = .ok r) :
    Api.eq v r = true ∧ Api.eq r v = true ∧ Api.cmp v r = .eq ∧ Api.cmp r v = .eq := by
  have c := E2E_aux_convert_ok t v r hv ht h
  have n1 := C09_numeric v r hv c.1
  have n2 := C09_numeric r v c.1 hv
  rw [c.2.1] at n1 n2
  have o := C09_total_order v v v hv hv hv
  have m := C09_numeric v v hv hv
  refine ⟨by rw [n1.1, ← m.1]; exact o.1, by rw [n2.1, ← m.1]; exact o.1,
    by rw [n1.2, ← m.2]; exact o.2.1, by rw [n2.2, ← m.2]; exact o.2.1⟩

/-- `==` implies `cmp = Equal` implies equal hash streams, for two vectors of the same type family
(same fixed word width, both dynamic, or both auto — whatever their lengths, capacities and storage modes) -/
theorem E2E_eq_cmp_hash (a b : Vec)
    (hty : match a, b with
      | .f w _, .f w' _ => w = w'
      | .d _, .d _ => True
      | .a _, .a _ => True
      | _, _ => False)
    (ha : a.Inv) (hb : b.Inv)
    (h : Api.eq a b = true) : Api.cmp a b = .eq ∧ Api.hashStream a = Api.hashStream b := by
  have o := C09_total_order a b b ha hb hb
  have n := (C09_numeric a b ha hb).1
  rw [h] at n
  have heq : a.abs.val = b.abs.val := of_decide_eq_true n.symm
  refine ⟨o.2.2.2.2.1.mp h, ?_⟩
  apply C10_hash a b ha hb heq
  cases a <;> cases b <;> exact hty

/-- equal values and equal types give equal hash streams -/
theorem E2E_aux_hash_same_ty (a b : Vec) (ha : a.Inv) (hb : b.Inv) (heq : a.abs.val = b.abs.val) (hty : a.ty = b.ty) :
    Api.hashStream a = Api.hashStream b := by
  apply C10_hash a b ha hb heq
  cases b with
  | f w s => cases a <;> simp only [Vec.ty, Ty.f.injEq, reduceCtorEq] at hty; exact hty.1
  | d s => cases a <;> simp only [Vec.ty, reduceCtorEq] at hty; trivial
  | a s => cases a <;> simp only [Vec.ty, reduceCtorEq] at hty; trivial

/-- converting to another implementation and back gives a vector with the same hash stream as the original -/
theorem E2E_convert_roundtrip_hash (t : Ty) (v r r' : Vec) (hv : v.Inv) (ht : E2E_TyOk t)
    (h : Api.convert t v = .ok r) (h' : Api.convert v.ty r = .ok r') : Api.hashStream r' = Api.hashStream v := by
  have c := E2E_convert_convert t v.ty v r r' hv ht (E2E_aux_own_ty v hv).1 h h'
  exact E2E_aux_hash_same_ty r' v c.1 hv (congrArg BV.val c.2.1) c.2.2

/-- `to_uint` after a conversion gives the same answer (value or `NotEnoughCapacity`) as on the original -/
theorem E2E_convert_to_uint (t : Ty) (v r : Vec) (hv : v.Inv) (ht : E2E_TyOk t) (h : Api.convert t v = .ok r)
    (W : Nat) (hW : WOk W) : Api.toUInt r W = Api.toUInt v W := by
  have c := E2E_aux_convert_ok t v r hv ht h
  rw [C11_to_uint r c.1 W hW, C11_to_uint v hv W hW, c.2.1]

/-- integer → vector of type `t` → vector of type `t'` → integer is the identity -/
theorem E2E_uint_convert_roundtrip (t t' : Ty) (W x : Nat) (hW : WOk W) (h128 : W ≤ 128) (hx : x < 2 ^ W)
    (ht : match t with | .f w N => WOk w ∧ 1 ≤ N | _ => True) (ht' : E2E_TyOk t') (r r' : Vec)
    (hr : Api.fromUInt t W x = .ok r) (hr' : Api.convert t' r = .ok r') : Api.toUInt r' W = .ok x := by
  have hri : r.Inv := by
    have hspec := C11_from_uint t W x hW h128 hx ht
    cases t with
    | f w N =>
      simp only at hspec
      by_cases hb : BV.natBits x ≤ N * w
      · obtain ⟨r0, e, hi, _, _⟩ := hspec.2 hb
        rw [hr] at e; cases e; exact hi
      · have := hspec.1 (by omega); rw [hr] at this; cases this
    | d => obtain ⟨r0, e, hi, _, _⟩ := hspec; rw [hr] at e; cases e; exact hi
    | a => obtain ⟨r0, e, hi, _, _⟩ := hspec; rw [hr] at e; cases e; exact hi
  rw [E2E_convert_to_uint t' r r' hri ht' hr' W hW]
  exact C11_roundtrip t W x hW h128 hx ht r hr

example := E2E_convert_roundtrip (.f 16 1) _ E2E_ex_d ⟨1, by decide⟩ (by show 7 ≤ 1 * 16; decide)
example := E2E_eq_cmp_hash (.d ⟨#[0x2D#64], 7⟩) (.d ⟨#[0x2D#64, 0#64], 70⟩) trivial E2E_ex_d
  ((Raw.invB_iff _ (by decide)).mp (by decide))

-- 5. bytes ------------------------------------------------------------------------------------------------

/-- `to_vec(e)` then `read(.., len, e)` into any implementation type that has room gives back `abs` exactly and
consumes exactly the bytes written (whatever follows them in the input) -/
theorem E2E_to_vec_read (v : Vec) (hv : v.Inv) (t : Ty) (ht : E2E_TyOk t) (hfit : E2E_TyFits t v.len) (big : Bool)
    (rest : List Nat) (hrest : ∀ b ∈ rest, b < 256) :
    ∃ r, Api.read t (Api.toVec v big ++ rest) v.len big = .ok (r, rest) ∧ r.Inv ∧ r.abs = v.abs ∧ r.ty = t := by
  have tv := C13_to_vec v hv big
  have hlen : (Api.toVec v big).length = (v.len + 7) / 8 := by rw [tv.1]; exact tv.2.1
  have hb : ∀ b ∈ Api.toVec v big ++ rest, b < 256 := by
    intro b hb
    rcases List.mem_append.mp hb with h | h
    · rw [tv.1] at h; exact tv.2.2 b h
    · exact hrest b h
  have rd := (C13_read t (Api.toVec v big ++ rest) v.len big hb ht).2 (by cases t <;> exact hfit)
  obtain ⟨r, e, hr, ha, hty⟩ := rd.2 (by rw [List.length_append, hlen]; omega)
  rw [← hlen, List.drop_left] at e
  rw [← hlen, List.take_left, tv.1, ← Vec.abs_len v, (C13_roundtrip v.abs (E2E_aux_wf v hv) big).2] at ha
  exact ⟨r, e, hr, ha, hty⟩

/-- `to_vec(e)` then `from_bytes(.., e)` into any implementation type that has room gives `abs` zero-extended to whole
bytes, and a following `truncate(len)` gives back `abs` exactly -/
theorem E2E_to_vec_from_bytes (v : Vec) (hv : v.Inv) (t : Ty) (ht : E2E_TyOk t) (big : Bool)
    (hfit : E2E_TyFits t ((v.len + 7) / 8 * 8)) :
    ∃ r r', Api.fromBytes t (Api.toVec v big) big = .ok r ∧ r.Inv ∧ r.abs = ⟨8 * ((v.len + 7) / 8), v.abs.val⟩ ∧
      Api.truncate r v.len = .ok r' ∧ r'.Inv ∧ r'.abs = v.abs ∧ r'.ty = t := by
  have tv := C13_to_vec v hv big
  have hlen : (Api.toVec v big).length = (v.len + 7) / 8 := by rw [tv.1]; exact tv.2.1
  have hb : ∀ b ∈ Api.toVec v big, b < 256 := by rw [tv.1]; exact tv.2.2
  have fb := C13_from_bytes t (Api.toVec v big) big hb ht
  have hwf := E2E_aux_wf v hv
  have hex : ∃ r, Api.fromBytes t (Api.toVec v big) big = .ok r ∧ r.Inv ∧
      r.abs = BV.fromBytes (Api.toVec v big) big ∧ r.ty = t := by
    cases t with
    | f w N => exact fb.2 (by rw [hlen]; exact hfit)
    | d => exact fb
    | a => exact fb
  obtain ⟨r, e, hr, ha, hty⟩ := hex
  rw [tv.1, (C13_roundtrip v.abs hwf big).1, Vec.abs_len] at ha
  obtain ⟨r', e', hr', ha', hty'⟩ := C07_truncate r hr v.len
  refine ⟨r, r', e, hr, ha, e', hr', ?_, hty'.trans hty⟩
  rw [ha', ha]
  unfold BV.WF at hwf
  rw [Vec.abs_len] at hwf
  unfold BV.truncate
  simp only
  split
  · unfold BV.resize
    simp only
    rw [if_pos (by omega), Nat.mod_eq_of_lt hwf, ← Vec.abs_len v]
  · have : 8 * ((v.len + 7) / 8) = v.len := by omega
    rw [this, ← Vec.abs_len v]

example := E2E_to_vec_read _ E2E_ex_f (.f 16 1) ⟨1, by decide⟩ (by show 5 ≤ 1 * 16; decide) true [0xAB] (by decide)
example := E2E_to_vec_from_bytes _ E2E_ex_d (.f 8 1) wok8 false (by show (7 + 7) / 8 * 8 ≤ 1 * 8; decide)

-- 6. format then parse --------------------------------------------------------------------------------

/-- vectors with equal values compare equal (any two implementations) -/
theorem E2E_aux_eq_of_val (a b : Vec) (ha : a.Inv) (hb : b.Inv) (h : b.abs.val = a.abs.val) :
    Api.eq a b = true ∧ Api.cmp a b = .eq := by
  have n := C09_numeric a b ha hb
  have m := C09_numeric a a ha ha
  have o := C09_total_order a a a ha ha ha
  rw [h] at n
  exact ⟨by rw [n.1, ← m.1]; exact o.1, by rw [n.2, ← m.2]; exact o.2.1⟩

/-- parsing the `{:b}` output of any vector into *any* implementation type whose capacity holds the digit string
(always, for the dynamic and auto types) succeeds and yields a vector that compares equal to the original -/
theorem E2E_binary_roundtrip (v : Vec) (hv : v.Inv) (t : Ty) (ht : E2E_TyOk t)
    (hfit : E2E_TyFits t (Api.digits v 'b').length) :
    ∃ r, Api.fromBinary t (Api.digits v 'b') = .ok r ∧ r.Inv ∧ r.abs.val = v.abs.val ∧ r.ty = t ∧
      r.len = (Api.digits v 'b').length ∧ Api.eq v r = true ∧ Api.cmp v r = .eq := by
  have hd := (C14_digits v hv).1
  have nb := digitsVal_numeral 2 false Bvf.binVal (by decide) (by decide) (fun d hd => binVal_digitChar d hd) v.abs.val
  rw [hd] at hfit ⊢
  obtain ⟨r, e, hi, ha, hty⟩ := ((C15_from_binary t (BV.numeral 2 false v.abs.val) ht).2 (by cases t <;> exact hfit)).2 nb.1
  have hval : r.abs.val = v.abs.val := by rw [ha]; exact nb.2
  have n := E2E_aux_eq_of_val v r hv hi hval
  exact ⟨r, e, hi, hval, hty, by rw [← Vec.abs_len, ha], n.1, n.2⟩

/-- the same for the `{:x}` and `{:X}` output and `from_hex` (four bits of capacity per digit) -/
theorem E2E_hex_roundtrip (v : Vec) (hv : v.Inv) (t : Ty) (ht : E2E_TyOk t) (upper : Bool)
    (hfit : E2E_TyFits t ((Api.digits v (if upper then 'X' else 'x')).length * 4)) :
    ∃ r, Api.fromHex t (Api.digits v (if upper then 'X' else 'x')) = .ok r ∧ r.Inv ∧ r.abs.val = v.abs.val ∧ r.ty = t ∧
      r.len = (Api.digits v (if upper then 'X' else 'x')).length * 4 ∧ Api.eq v r = true ∧ Api.cmp v r = .eq := by
  have hd : Api.digits v (if upper then 'X' else 'x') = BV.numeral 16 upper v.abs.val := by
    cases upper
    · exact (C14_digits v hv).2.2.1
    · exact (C14_digits v hv).2.2.2
  have nx := digitsVal_numeral 16 upper Bvf.hexVal (by decide) (by decide) (fun d hd => hexVal_digitChar upper d hd) v.abs.val
  rw [hd] at hfit ⊢
  obtain ⟨r, e, hi, ha, hty⟩ := ((C15_from_hex t (BV.numeral 16 upper v.abs.val) ht).2 (by cases t <;> exact hfit)).2 nx.1
  have hval : r.abs.val = v.abs.val := by rw [ha]; exact nx.2
  have n := E2E_aux_eq_of_val v r hv hi hval
  exact ⟨r, e, hi, hval, hty, by rw [← Vec.abs_len, ha], n.1, n.2⟩

/-- formatting depends on the value only: a vector and its conversion to another implementation print the same
binary, octal and hexadecimal digits -/
theorem E2E_convert_digits (t : Ty) (v r : Vec) (hv : v.Inv) (ht : E2E_TyOk t) (h : Api.convert t v = .ok r) (k : Char)
    (hk : k = 'b' ∨ k = 'o' ∨ k = 'x' ∨ k = 'X') : Api.digits r k = Api.digits v k := by
  have c := E2E_aux_convert_ok t v r hv ht h
  exact C14_value_only r v c.1 hv (congrArg BV.val c.2.1) k hk

example := E2E_binary_roundtrip _ E2E_ex_d (.f 8 1) wok8
  (by show (Api.digits (.d ⟨#[0x2D#64], 7⟩) 'b').length ≤ 1 * 8; decide)

-- 7. capacity management between other operations ------------------------------------------------------

/-- `reserve` keeps the invariant, `abs` and the type -/
theorem E2E_aux_reserve (v : Vec) (hv : v.Inv) (k : Nat) :
    (Api.reserve v k).Inv ∧ (Api.reserve v k).abs = v.abs ∧ (Api.reserve v k).ty = v.ty ∧ (Api.reserve v k).len = v.len := by
  have c := C18_reserve v hv k
  exact ⟨c.1, c.2.1, by cases v <;> rfl, by rw [← Vec.abs_len, c.2.1, Vec.abs_len]⟩

/-- `shrink_to_fit` keeps the invariant, `abs` and the type -/
theorem E2E_aux_shrink (v : Vec) (hv : v.Inv) :
    (Api.shrinkToFit v).Inv ∧ (Api.shrinkToFit v).abs = v.abs ∧ (Api.shrinkToFit v).ty = v.ty ∧ (Api.shrinkToFit v).len = v.len := by
  have c := C18_shrink_to_fit v hv
  exact ⟨c.1, c.2.1, by cases v <;> rfl, by rw [← Vec.abs_len, c.2.1, Vec.abs_len]⟩

/-- `reserve(k)` then `shrink_to_fit()` (and the other order) changes neither length nor bits -/
theorem E2E_reserve_shrink (v : Vec) (hv : v.Inv) (k : Nat) :
    (Api.shrinkToFit (Api.reserve v k)).Inv ∧ (Api.shrinkToFit (Api.reserve v k)).abs = v.abs ∧
    (Api.reserve (Api.shrinkToFit v) k).Inv ∧ (Api.reserve (Api.shrinkToFit v) k).abs = v.abs := by
  have r := E2E_aux_reserve v hv k
  have s := E2E_aux_shrink v hv
  have rs := E2E_aux_shrink _ r.1
  have sr := E2E_aux_reserve _ s.1 k
  exact ⟨rs.1, rs.2.1.trans r.2.1, sr.1, sr.2.1.trans s.2.1⟩

/-- `push` after `reserve(k)` or after `shrink_to_fit()` succeeds exactly when the plain `push` does and gives
the same bits -/
theorem E2E_reserve_push (v : Vec) (hv : v.Inv) (k : Nat) (b : Bool) (hfit : v.fits (v.len + 1)) :
    ∃ r r1 r2, Api.push v b = .ok r ∧ Api.push (Api.reserve v k) b = .ok r1 ∧ Api.push (Api.shrinkToFit v) b = .ok r2 ∧
      r1.Inv ∧ r2.Inv ∧ r1.abs = r.abs ∧ r2.abs = r.abs ∧ r.abs = v.abs.push b := by
  have hr := E2E_aux_reserve v hv k
  have hs := E2E_aux_shrink v hv
  have hl : ∀ a : BV, (a.push b).len = a.len + 1 := fun a => rfl
  obtain ⟨r, e, _, ha, _⟩ := (C07_push v hv b).1 (by rw [hl, Vec.abs_len]; exact hfit)
  obtain ⟨r1, e1, hi1, ha1, _⟩ := (C07_push _ hr.1 b).1
    (by rw [hl, Vec.abs_len, hr.2.2.2]; exact E2E_aux_fits_ty v _ hr.2.2.1 _ hfit)
  obtain ⟨r2, e2, hi2, ha2, _⟩ := (C07_push _ hs.1 b).1
    (by rw [hl, Vec.abs_len, hs.2.2.2]; exact E2E_aux_fits_ty v _ hs.2.2.1 _ hfit)
  rw [hr.2.1] at ha1
  rw [hs.2.1] at ha2
  exact ⟨r, r1, r2, e, e1, e2, hi1, hi2, ha1.trans ha.symm, ha2.trans ha.symm, ha⟩

/-- `push(b)`, `reserve(k)`, `shrink_to_fit()`, `pop()` gives back the original vector and `Some(b)` -/
theorem E2E_push_reserve_shrink_pop (v : Vec) (hv : v.Inv) (b : Bool) (k : Nat) (hfit : v.fits (v.len + 1)) :
    ∃ r, Api.push v b = .ok r ∧ (Api.pop (Api.shrinkToFit (Api.reserve r k))).1.Inv ∧
      (Api.pop (Api.shrinkToFit (Api.reserve r k))).1.abs = v.abs ∧
      (Api.pop (Api.shrinkToFit (Api.reserve r k))).2 = some b := by
  have hl : (v.abs.push b).len = v.len + 1 := by show v.abs.len + 1 = _; rw [Vec.abs_len]
  obtain ⟨r, e, hr, ha, ht⟩ := (C07_push v hv b).1 (by rw [hl]; exact hfit)
  have h1 := E2E_aux_reserve r hr k
  have h2 := E2E_aux_shrink _ h1.1
  have hp := C07_pop _ h2.1
  rw [h2.2.1, h1.2.1, ha, Law_push_pop v.abs b (E2E_aux_wf v hv)] at hp
  have h3 := hp.2.1
  simp only [Prod.mk.injEq] at h3
  exact ⟨r, e, hp.1, h3.1, h3.2⟩

/-- `set` / `get` do not see `reserve` or `shrink_to_fit` -/
theorem E2E_capacity_set_get (v : Vec) (hv : v.Inv) (k i : Nat) (b : Bool) (hi : i < v.len) :
    (Api.set (Api.reserve v k) i b).abs = (Api.set v i b).abs ∧
    (Api.set (Api.shrinkToFit v) i b).abs = (Api.set v i b).abs ∧
    Api.get (Api.reserve v k) i = Api.get v i ∧ Api.get (Api.shrinkToFit v) i = Api.get v i := by
  have hr := E2E_aux_reserve v hv k
  have hs := E2E_aux_shrink v hv
  refine ⟨?_, ?_, ?_, ?_⟩
  · rw [(C07_set _ hr.1 i b (by rw [hr.2.2.2]; exact hi)).2.1, (C07_set v hv i b hi).2.1, hr.2.1]
  · rw [(C07_set _ hs.1 i b (by rw [hs.2.2.2]; exact hi)).2.1, (C07_set v hv i b hi).2.1, hs.2.1]
  · rw [Api.get_eq_bit _ hr.1.wpos, Api.get_eq_bit _ hv.wpos, hr.2.1]
  · rw [Api.get_eq_bit _ hs.1.wpos, Api.get_eq_bit _ hv.wpos, hs.2.1]

/-- `reserve` and `shrink_to_fit` are invisible to `==`, `cmp`, the hash stream, `to_vec` and the formatted digits -/
theorem E2E_capacity_observers (v : Vec) (hv : v.Inv) (k : Nat) (big : Bool) :
    Api.eq v (Api.shrinkToFit (Api.reserve v k)) = true ∧ Api.cmp v (Api.shrinkToFit (Api.reserve v k)) = .eq ∧
    Api.hashStream (Api.shrinkToFit (Api.reserve v k)) = Api.hashStream v ∧
    Api.toVec (Api.shrinkToFit (Api.reserve v k)) big = Api.toVec v big ∧
    Api.digits (Api.shrinkToFit (Api.reserve v k)) 'x' = Api.digits v 'x' := by
  have h1 := E2E_aux_reserve v hv k
  have h2 := E2E_aux_shrink _ h1.1
  have ha : (Api.shrinkToFit (Api.reserve v k)).abs = v.abs := h2.2.1.trans h1.2.1
  have hty : (Api.shrinkToFit (Api.reserve v k)).ty = v.ty := h2.2.2.1.trans h1.2.2.1
  have n := E2E_aux_eq_of_val v _ hv h2.1 (congrArg BV.val ha)
  refine ⟨n.1, n.2, ?_, ?_, ?_⟩
  · exact E2E_aux_hash_same_ty _ v h2.1 hv (congrArg BV.val ha) hty
  · rw [(C13_to_vec _ h2.1 big).1, (C13_to_vec v hv big).1, ha]
  · exact C14_value_only _ v h2.1 hv (congrArg BV.val ha) 'x' (Or.inr (Or.inr (Or.inl rfl)))

example := E2E_push_reserve_shrink_pop _ E2E_ex_d true 1000 trivial

-- 8. iterate then collect ----------------------------------------------------------------------------

/-- the bits among the values returned by a sequence of iterator calls -/
def E2E_items : List IterOut → List Bool
  | [] => []
  | .bit (some b) :: l => b :: E2E_items l
  | _ :: l => E2E_items l

/-- L0: calling `next()` `|l|` times on a slice iterator returns the elements in order -/
theorem E2E_aux_sliceRun_next (l : List Bool) :
    E2E_items (sliceRun false l (List.replicate l.length .next)) = l := by
  induction l with
  | nil => rfl
  | cons b l ih =>
    simp only [List.length_cons, List.replicate_succ, sliceRun, sliceStep, Bool.false_eq_true, if_false,
      List.head?_cons, List.drop_succ_cons, List.drop_zero, E2E_items]
    rw [ih]

/-- L0: calling `next()` `|l|` times on the reversed slice iterator returns the elements in reverse order -/
theorem E2E_aux_sliceRun_next_rev (l : List Bool) :
    ∀ n, n = l.length → E2E_items (sliceRun true l (List.replicate n .next)) = l.reverse := by
  intro n
  induction n generalizing l with
  | zero => intro h; have := List.eq_nil_of_length_eq_zero h.symm; subst this; rfl
  | succ n ih =>
    intro h
    have hne : l ≠ [] := by intro e; subst e; simp at h
    have hl := List.dropLast_concat_getLast hne
    have hlen : n = l.dropLast.length := by rw [List.length_dropLast]; omega
    simp only [List.replicate_succ, sliceRun, sliceStepRev, sliceStep, if_true]
    rw [List.getLast?_eq_some_getLast hne]
    simp only [E2E_items]
    rw [ih l.dropLast hlen]
    conv => rhs; rw [← hl, List.reverse_append]
    rfl

/-- draining `v.iter()` with `len` calls to `next()` and collecting the items into *any* implementation type that
has room rebuilds the vector -/
theorem E2E_iter_collect (v : Vec) (hv : v.Inv) (t : Ty) (ht : E2E_TyOk t) (hfit : E2E_TyFits t v.len) (hint : Nat) :
    ∃ r, Api.collect t (E2E_items (Api.iterRun v false (List.replicate v.len .next))) hint = .ok r ∧ r.Inv ∧
      r.abs = v.abs ∧ r.ty = t := by
  have hbl : v.abs.bits.length = v.len := by rw [BV.bits_length, Vec.abs_len]
  rw [C17_refines v hv.wpos, ← hbl, E2E_aux_sliceRun_next]
  obtain ⟨r, e, hr, ha, hty⟩ := C07_collect t ht v.abs.bits hint (by cases t <;> (try rw [hbl]) <;> exact hfit)
  exact ⟨r, e, hr, by rw [ha, BV.ofBits_bits_self _ (E2E_aux_wf v hv)], hty⟩

/-- draining `v.iter().rev()` with `len` calls to `next()` and collecting gives a vector with the same bits in
reverse order -/
theorem E2E_iter_rev_collect (v : Vec) (hv : v.Inv) (t : Ty) (ht : E2E_TyOk t) (hfit : E2E_TyFits t v.len)
    (hint : Nat) :
    ∃ r, Api.collect t (E2E_items (Api.iterRun v true (List.replicate v.len .next))) hint = .ok r ∧ r.Inv ∧
      r.abs.bits = v.abs.bits.reverse ∧ r.len = v.len ∧ r.ty = t := by
  have hbl : v.abs.bits.length = v.len := by rw [BV.bits_length, Vec.abs_len]
  rw [C17_refines v hv.wpos, E2E_aux_sliceRun_next_rev _ _ hbl.symm]
  obtain ⟨r, e, hr, ha, hty⟩ := C07_collect t ht v.abs.bits.reverse hint
    (by cases t <;> (try rw [List.length_reverse, hbl]) <;> exact hfit)
  have hb : r.abs.bits = v.abs.bits.reverse := by rw [ha, BV.ofBits_bits]
  have hrl : r.len = v.len := by rw [← Vec.abs_len, ← BV.bits_length, hb, List.length_reverse, hbl]
  exact ⟨r, e, hr, hb, hrl, hty⟩

/-- reversing twice through `iter().rev()` + `collect` rebuilds the original vector -/
theorem E2E_iter_rev_collect_twice (v : Vec) (hv : v.Inv) (t : Ty) (ht : E2E_TyOk t) (hfit : E2E_TyFits t v.len)
    (hint : Nat) :
    ∃ r r', Api.collect t (E2E_items (Api.iterRun v true (List.replicate v.len .next))) hint = .ok r ∧ r.Inv ∧
      Api.collect t (E2E_items (Api.iterRun r true (List.replicate r.len .next))) hint = .ok r' ∧ r'.Inv ∧
      r'.abs = v.abs ∧ r'.ty = t := by
  obtain ⟨r, e, hr, hb, hl, _⟩ := E2E_iter_rev_collect v hv t ht hfit hint
  obtain ⟨r', e', hr', hb', _, hty'⟩ := E2E_iter_rev_collect r hr t ht (by rw [hl]; exact hfit) hint
  refine ⟨r, r', e, hr, e', hr', ?_, hty'⟩
  apply BV.eq_of_bits _ _ (E2E_aux_wf r' hr') (E2E_aux_wf v hv)
  rw [hb', hb, List.reverse_reverse]

example : E2E_items (Api.iterRun (.f 8 ⟨#[0x15#8, 0#8], 5⟩) false (List.replicate 5 .next)) =
    [true, false, true, false, true] := by decide
example := E2E_iter_collect _ E2E_ex_f .a trivial trivial 0

-- 9. prepend / insert / extend versus append ---------------------------------------------------------

/-- `v.prepend(x)` and `x.append(v)` build the same bits, whatever the two implementations -/
theorem E2E_prepend_eq_append (v x : Vec) (hv : v.Inv) (hx : x.Inv) (hfv : v.fits (v.len + x.len))
    (hfx : x.fits (x.len + v.len)) :
    ∃ r r', Api.prepend v x.any = .ok r ∧ Api.append x v.any = .ok r' ∧ r.Inv ∧ r'.Inv ∧ r.abs = r'.abs ∧
      r.ty = v.ty ∧ r'.ty = x.ty := by
  have hp := C07_prepend v x hv hx
  rw [Law_prepend_append] at hp
  have hl : (x.abs.append v.abs).len = x.len + v.len := by
    show x.abs.len + v.abs.len = _; rw [Vec.abs_len, Vec.abs_len]
  obtain ⟨r, e, hr, ha, ht⟩ := hp.1 (by rw [hl, Nat.add_comm]; exact hfv)
  obtain ⟨r', e', hr', ha', ht'⟩ := (C07_append x v hx hv).1 (by rw [hl]; exact hfx)
  exact ⟨r, r', e, e', hr, hr', ha.trans ha'.symm, ht, ht'⟩

/-- `insert(len, x)` is `append(x)` -/
theorem E2E_insert_end_eq_append (v x : Vec) (hv : v.Inv) (hx : x.Inv) (hfit : v.fits (v.len + x.len)) :
    ∃ r r', Api.insert v v.len x.any = .ok r ∧ Api.append v x.any = .ok r' ∧ r.Inv ∧ r.abs = r'.abs := by
  have hi := C07_insert v x hv hx v.len (Nat.le_refl _)
  rw [← Vec.abs_len v, Law_insert_len _ _ (E2E_aux_wf v hv), Vec.abs_len] at hi
  have hl : (v.abs.append x.abs).len = v.len + x.len := by
    show v.abs.len + x.abs.len = _; rw [Vec.abs_len, Vec.abs_len]
  obtain ⟨r, e, hr, ha, _⟩ := hi.1 (by rw [hl]; exact hfit)
  obtain ⟨r', e', _, ha', _⟩ := (C07_append v x hv hx).1 (by rw [hl]; exact hfit)
  exact ⟨r, r', e, e', hr, ha.trans ha'.symm⟩

/-- `insert(i, x)` then `split_off(i)`, `split_off(|x|)` on the high part recovers the three pieces -/
theorem E2E_insert_abs (v x : Vec) (hv : v.Inv) (hx : x.Inv) (i : Nat) (hi : i ≤ v.len) (hfit : v.fits (v.len + x.len)) :
    ∃ r lo hi', Api.insert v i x.any = .ok r ∧ r.Inv ∧ Api.splitOff v i = .ok (lo, hi') ∧
      r.abs = (lo.abs.append x.abs).append hi'.abs := by
  have h := C07_insert v x hv hx i hi
  have hl : (v.abs.insert i x.abs).len = v.len + x.len := by
    show v.abs.len + x.abs.len = _; rw [Vec.abs_len, Vec.abs_len]
  obtain ⟨r, e, hr, ha, _⟩ := h.1 (by rw [hl]; exact hfit)
  obtain ⟨lo, hi', e2, _, _, hab, _, _⟩ := C07_split_off v hv i hi
  refine ⟨r, lo, hi', e, hr, e2, ?_⟩
  rw [ha, Law_insert_split _ _ _ (E2E_aux_wf v hv) (by rw [Vec.abs_len]; exact hi), ← hab]

/-- appending is associative across implementations: `(v ++ x) ++ y` and `v ++ (x ++ y)` have the same bits -/
theorem E2E_append_assoc (v x y : Vec) (hv : v.Inv) (hx : x.Inv) (hy : y.Inv)
    (hfv : v.fits (v.len + x.len + y.len)) (hfx : x.fits (x.len + y.len)) :
    ∃ r1 r2 s1 s2, Api.append v x.any = .ok r1 ∧ Api.append r1 y.any = .ok r2 ∧
      Api.append x y.any = .ok s1 ∧ Api.append v s1.any = .ok s2 ∧ r2.Inv ∧ s2.Inv ∧ r2.abs = s2.abs := by
  have hl : ∀ a b : Vec, (a.abs.append b.abs).len = a.len + b.len := by
    intro a b; show a.abs.len + b.abs.len = _; rw [Vec.abs_len, Vec.abs_len]
  obtain ⟨r1, e1, hr1, ha1, ht1⟩ := (C07_append v x hv hx).1
    (by rw [hl]; exact E2E_aux_fits_mono v _ _ (Nat.le_add_right _ _) hfv)
  have hr1l : r1.len = v.len + x.len := by rw [← Vec.abs_len, ha1, hl]
  obtain ⟨r2, e2, hr2, ha2, _⟩ := (C07_append r1 y hr1 hy).1
    (by rw [hl, hr1l]; exact E2E_aux_fits_ty v r1 ht1 _ hfv)
  obtain ⟨s1, f1, hs1, hb1, _⟩ := (C07_append x y hx hy).1 (by rw [hl]; exact hfx)
  have hs1l : s1.len = x.len + y.len := by rw [← Vec.abs_len, hb1, hl]
  obtain ⟨s2, f2, hs2, hb2, _⟩ := (C07_append v s1 hv hs1).1
    (by rw [hl, hs1l, ← Nat.add_assoc]; exact hfv)
  refine ⟨r1, r2, s1, s2, e1, e2, f1, f2, hr2, hs2, ?_⟩
  rw [ha2, ha1, hb2, hb1, Law_append_assoc]

/-- `extend(bits)` is `append` of the vector collected (into any implementation type) from the same bits -/
theorem E2E_extend_eq_append_collect (v : Vec) (hv : v.Inv) (bs : List Bool) (t : Ty) (ht : E2E_TyOk t)
    (hft : E2E_TyFits t bs.length) (hfit : v.fits (v.len + bs.length)) (hint : Nat) :
    ∃ r c r', Api.extend v bs = .ok r ∧ Api.collect t bs hint = .ok c ∧ Api.append v c.any = .ok r' ∧
      r.Inv ∧ r'.Inv ∧ r.abs = r'.abs := by
  have he := C07_extend v hv bs
  rw [Law_extend_eq_append _ _ (E2E_aux_wf v hv)] at he
  have hl : (v.abs.append (BV.ofBits bs)).len = v.len + bs.length := by
    show v.abs.len + (BV.ofBits bs).len = _; rw [Vec.abs_len, BV.ofBits_len]
  obtain ⟨r, e, hr, ha, _⟩ := he.1 (by rw [hl]; exact hfit)
  obtain ⟨c, ec, hc, hca, _⟩ := C07_collect t ht bs hint (by cases t <;> exact hft)
  have happ := C07_append v c hv hc
  rw [hca] at happ
  obtain ⟨r', e', hr', ha', _⟩ := happ.1 (by rw [hl]; exact hfit)
  exact ⟨r, c, r', e, ec, e', hr, hr', ha.trans ha'.symm⟩

example := E2E_prepend_eq_append _ _ E2E_ex_f E2E_ex_a (by show 5 + 6 ≤ 2 * 8; decide) trivial

-- 10. further observers after edits / conversions -------------------------------------------------------

/-- the bytes written by `to_vec` do not depend on the implementation: a converted vector writes the same bytes -/
theorem E2E_convert_to_vec (t : Ty) (v r : Vec) (hv : v.Inv) (ht : E2E_TyOk t) (h : Api.convert t v = .ok r)
    (big : Bool) : Api.toVec r big = Api.toVec v big := by
  have c := E2E_aux_convert_ok t v r hv ht h
  rw [(C13_to_vec r c.1 big).1, (C13_to_vec v hv big).1, c.2.1]

/-- big-endian `to_vec` is the reverse of little-endian `to_vec`, for every implementation -/
theorem E2E_to_vec_endianness (v : Vec) (hv : v.Inv) : Api.toVec v true = (Api.toVec v false).reverse := by
  rw [(C13_to_vec v hv true).1, (C13_to_vec v hv false).1]; exact Law_toVec_reverse _

/-- `collect` then draining the iterator returns the collected bits in order -/
theorem E2E_collect_iter (t : Ty) (ht : E2E_TyOk t) (bs : List Bool) (hint : Nat) (hfit : E2E_TyFits t bs.length) :
    ∃ r, Api.collect t bs hint = .ok r ∧ r.Inv ∧ r.len = bs.length ∧
      E2E_items (Api.iterRun r false (List.replicate r.len .next)) = bs := by
  obtain ⟨r, e, hr, ha, _⟩ := C07_collect t ht bs hint (by cases t <;> exact hfit)
  have hl : r.len = bs.length := by rw [← Vec.abs_len, ha, BV.ofBits_len]
  refine ⟨r, e, hr, hl, ?_⟩
  rw [C17_refines r hr.wpos, ha, BV.ofBits_bits, hl, E2E_aux_sliceRun_next]

/-- `truncate(m)` twice is `truncate(m)` once -/
theorem E2E_truncate_idem (v : Vec) (hv : v.Inv) (m : Nat) :
    ∃ r r', Api.truncate v m = .ok r ∧ Api.truncate r m = .ok r' ∧ r'.Inv ∧ r'.abs = r.abs := by
  obtain ⟨r, e, hr, ha, _⟩ := C07_truncate v hv m
  obtain ⟨r', e', hr', ha', _⟩ := C07_truncate r hr m
  exact ⟨r, r', e, e', hr', by rw [ha', ha, Law_truncate_idem]⟩

/-- `sign_extend(m)` twice is `sign_extend(m)` once -/
theorem E2E_sign_extend_idem (v : Vec) (hv : v.Inv) (m : Nat) (hfit : v.fits m) :
    ∃ r r', Api.signExtend v m = .ok r ∧ Api.signExtend r m = .ok r' ∧ r'.Inv ∧ r'.abs = r.abs := by
  have hfit' : v.fits (v.abs.signExtend m).len := by
    unfold BV.signExtend
    split
    · rw [BV.resize_len]; exact hfit
    · rw [Vec.abs_len]; exact E2E_aux_fits_self v hv
  obtain ⟨r, e, hr, ha, ht⟩ := (C07_sign_extend v hv m).1 hfit'
  have h2 := C07_sign_extend r hr m
  rw [ha, Law_signExtend_idem] at h2
  obtain ⟨r', e', hr', ha', _⟩ := h2.1 (E2E_aux_fits_ty v r ht _ hfit')
  exact ⟨r, r', e, e', hr', ha'.trans ha.symm⟩

/-- after `push(b)`, `last()` is `Some(b)` and the length has grown by one -/
theorem E2E_push_last (v : Vec) (hv : v.Inv) (b : Bool) (hfit : v.fits (v.len + 1)) :
    ∃ r, Api.push v b = .ok r ∧ r.Inv ∧ r.len = v.len + 1 ∧ Api.last r = some b := by
  have hl : (v.abs.push b).len = v.len + 1 := by show v.abs.len + 1 = _; rw [Vec.abs_len]
  obtain ⟨r, e, hr, ha, _⟩ := (C07_push v hv b).1 (by rw [hl]; exact hfit)
  refine ⟨r, e, hr, by rw [← Vec.abs_len, ha, hl], ?_⟩
  rw [(C08_first_last r hr).2.1, ha]
  unfold BV.last
  rw [hl, if_neg (by omega), BV.push_bit _ _ (E2E_aux_wf v hv), Vec.abs_len, Nat.add_sub_cancel,
    if_neg (Nat.lt_irrefl _)]
  simp

example := E2E_collect_iter (.f 8 1) wok8 [true, false, true] 0 (by show 3 ≤ 1 * 8; decide)
example := E2E_push_last _ E2E_ex_a false trivial

end Bva
