import BvaProofs.Refine
/-!
# C05 — shifts are logical, length-preserving, and zero-fill for every shift amount

`Api.shl v k byRef` / `Api.shr` model `<<`, `>>`, `<<=`, `>>=` in all six forms for a shift amount `k` of
any native unsigned type (the amount is narrowed to `usize` by saturation — repair D4 — which is
`Api.narrowShift`); `byRef` selects the separately written `&Bvd << k` / `&Bvd >> k` bodies.
`Api.shlIn` / `Api.shrIn` model `shl_in` / `shr_in`.  The only side condition is the Rust fact that a
length is a `usize` (`v.len < 2^64`).
-/
namespace Bva

theorem BV.shl_of_len_le (a : BV) (k : Nat) (h : a.len ≤ k) : a.shl k = ⟨a.len, 0⟩ := by
  unfold BV.shl; simp [h]
theorem BV.shr_of_len_le (a : BV) (k : Nat) (h : a.len ≤ k) : a.shr k = ⟨a.len, 0⟩ := by
  unfold BV.shr; simp [h]

/-- narrowing the amount to `usize` by saturation does not change the result -/
theorem C05_amount (a : BV) (k : Nat) (hl : a.len < 2 ^ 64) :
    a.shl (Api.narrowShift k) = a.shl k ∧ a.shr (Api.narrowShift k) = a.shr k := by
  unfold Api.narrowShift
  by_cases h : k ≤ 2 ^ 64 - 1
  · rw [Nat.min_eq_left h]; exact ⟨rfl, rfl⟩
  · rw [Nat.min_eq_right (by omega)]
    rw [BV.shl_of_len_le a _ (by omega), BV.shl_of_len_le a k (by omega),
      BV.shr_of_len_le a _ (by omega), BV.shr_of_len_le a k (by omega)]
    exact ⟨rfl, rfl⟩

/-- L0 meaning bit by bit: bit `i` of `a << k` is bit `i-k` of `a` when `k ≤ i < n`, zero otherwise;
bit `i` of `a >> k` is bit `i+k` of `a` when `i+k < n`, zero otherwise; the length is unchanged.
In particular everything is zero when `k ≥ n`. -/
theorem C05_spec_bits (a : BV) (ha : a.WF) (k i : Nat) :
    (a.shl k).len = a.len ∧ (a.shr k).len = a.len ∧
    (a.shl k).bit i = (decide (k ≤ i ∧ i < a.len) && a.bit (i - k)) ∧
    (a.shr k).bit i = (decide (i + k < a.len) && a.bit (i + k)) := by
  refine ⟨?_, ?_, BV.shl_bit a k i, BV.shr_bit a ha k i⟩
  · unfold BV.shl; split <;> rfl
  · unfold BV.shr; split <;> rfl

/-- `v << k` for every implementation, every form, every amount. -/
theorem C05_shl (v : Vec) (hv : v.Inv) (k : Nat) (byRef : Bool) (hl : v.len < 2 ^ 64) :
    (Api.shl v k byRef).Inv ∧ (Api.shl v k byRef).abs = v.abs.shl k := by
  have hlen : v.abs.len = v.len := by cases v <;> rfl
  have ham := (C05_amount v.abs k (by rw [hlen]; exact hl)).1
  rw [← ham]
  unfold Api.shl
  simp only
  generalize Api.narrowShift k = k'
  cases v with
  | f w s => have r := Raw.shlAssign_refines s hv.1.pos hv.2 k'; exact ⟨⟨hv.1, r.1⟩, r.2⟩
  | d s =>
    cases byRef with
    | true => exact Bvd.shlRef_refines s hv k'
    | false => exact Raw.shlAssign_refines s (by decide) hv k'
  | a b =>
    cases b with
    | fixed s =>
      have r := Raw.shlAssign_refines s (by decide) hv.1 k'
      exact ⟨⟨r.1, (Raw.shlAssign_size s (by decide) hv.1 k').trans hv.2⟩, r.2⟩
    | dynamic s => exact Raw.shlAssign_refines s (by decide) hv k'

/-- `v >> k` likewise. -/
theorem C05_shr (v : Vec) (hv : v.Inv) (k : Nat) (byRef : Bool) (hl : v.len < 2 ^ 64) :
    (Api.shr v k byRef).Inv ∧ (Api.shr v k byRef).abs = v.abs.shr k := by
  have hlen : v.abs.len = v.len := by cases v <;> rfl
  have ham := (C05_amount v.abs k (by rw [hlen]; exact hl)).2
  rw [← ham]
  unfold Api.shr
  simp only
  generalize Api.narrowShift k = k'
  cases v with
  | f w s => have r := Raw.shrAssign_refines s hv.1.pos hv.2 k'; exact ⟨⟨hv.1, r.1⟩, r.2⟩
  | d s =>
    cases byRef with
    | true => exact Bvd.shrRef_refines s hv k'
    | false => exact Raw.shrAssign_refines s (by decide) hv k'
  | a b =>
    cases b with
    | fixed s =>
      have r := Raw.shrAssign_refines s (by decide) hv.1 k'
      exact ⟨⟨r.1, (Raw.shrAssign_size s (by decide) hv.1 k').trans hv.2⟩, r.2⟩
    | dynamic s => exact Raw.shrAssign_refines s (by decide) hv k'

/-- `shl_in(b)`: shift up by exactly one, `b` enters at bit 0, the old top bit is returned
(`b` itself when the vector is empty) — `BV.shlIn`. -/
theorem C05_shl_in (v : Vec) (hv : v.Inv) (b : Bool) :
    (Api.shlIn v b).1.Inv ∧ ((Api.shlIn v b).1.abs, (Api.shlIn v b).2) = v.abs.shlIn b := by
  cases v with
  | f w s => have r := Raw.shlIn_refines s hv.1.pos hv.2 b; exact ⟨⟨hv.1, r.1⟩, r.2⟩
  | d s => exact Raw.shlIn_refines s (by decide) hv b
  | a c =>
    cases c with
    | fixed s =>
      have r := Raw.shlIn_refines s (by decide) hv.1 b
      exact ⟨⟨r.1, (Raw.shlIn_bits s (by decide) hv.1 b).2.1.trans hv.2⟩, r.2⟩
    | dynamic s => exact Raw.shlIn_refines s (by decide) hv b

/-- `shr_in(b)`: shift down by one, `b` enters at the top, the old bit 0 is returned. -/
theorem C05_shr_in (v : Vec) (hv : v.Inv) (b : Bool) :
    (Api.shrIn v b).1.Inv ∧ ((Api.shrIn v b).1.abs, (Api.shrIn v b).2) = v.abs.shrIn b := by
  cases v with
  | f w s => have r := Raw.shrIn_refines s hv.1.pos hv.2 b; exact ⟨⟨hv.1, r.1⟩, r.2⟩
  | d s => exact Raw.shrIn_refines s (by decide) hv b
  | a c =>
    cases c with
    | fixed s =>
      have r := Raw.shrIn_refines s (by decide) hv.1 b
      exact ⟨⟨r.1, (Raw.shrIn_bits s (by decide) hv.1 b).2.1.trans hv.2⟩, r.2⟩
    | dynamic s => exact Raw.shrIn_refines s (by decide) hv b

/-- non-vacuity: the hypotheses are met by a concrete full 8-bit `Bvf<u8,1>`, for which the theorem gives
`(v << 2^64) = 0` (a `u128` amount beyond the platform word) -/
example : (Vec.f 8 ⟨#[0xff#8], 8⟩ : Vec).Inv ∧ (Vec.f 8 ⟨#[0xff#8], 8⟩ : Vec).len < 2 ^ 64 :=
  ⟨⟨wok8, (Raw.invB_iff _ (by decide)).mp (by decide)⟩, by decide⟩
example : (Api.shl (.f 8 ⟨#[0xff#8], 8⟩) (2 ^ 64) false).abs = ⟨8, 0⟩ := by
  have hv : (Vec.f 8 ⟨#[0xff#8], 8⟩ : Vec).Inv := ⟨wok8, (Raw.invB_iff _ (by decide)).mp (by decide)⟩
  rw [(C05_shl _ hv (2 ^ 64) false (by decide)).2]
  decide

end Bva
