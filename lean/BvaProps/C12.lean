import BvaProofs.Refine
/-!
# C12 — conversions between implementations preserve length and every bit
`Api.convert t src` models `T::try_from(&src)` / `T::from(&src)` / the by-value forms (which delegate) for a
target type `t` and a source of any implementation, word width, length, spare capacity and storage mode.
-/
namespace Bva

theorem Vec.srcOk {x : Vec} (hx : x.Inv) {w : Nat} (hw : WOk w) : cnv_SrcOk w x.any := by
  cases x with
  | f w1 b => exact ⟨hx.1.compat hw, hx.2⟩
  | d b => exact ⟨wok64.compat hw, hx⟩
  | a c => cases c with
    | fixed b => exact ⟨wok64.compat hw, hx.1⟩
    | dynamic b => exact ⟨wok64.compat hw, hx⟩

/-- converting into a fixed type: `NotEnoughCapacity` exactly when the source length exceeds the capacity,
otherwise the same length and the same bits; converting into `Bvd` or `Bv` never fails. -/
theorem C12_convert (t : Ty) (src : Vec) (hs : src.Inv) (ht : match t with | .f w _ => WOk w | _ => True) :
    match t with
    | .f w N =>
      (N * w < src.len → Api.convert t src = .err "NotEnoughCapacity") ∧
      (src.len ≤ N * w → ∃ r, Api.convert t src = .ok r ∧ r.Inv ∧ r.abs = src.abs ∧ r.ty = t)
    | _ => ∃ r, Api.convert t src = .ok r ∧ r.Inv ∧ r.abs = src.abs ∧ r.ty = t := by
  have hl : src.any.len = src.len := by rw [← AnyBv.abs_len, Vec.any_abs, Vec.abs_len]
  have he := Vec.any_abs src
  cases t with
  | f w N =>
    have s := Bvf.convert_spec (w := w) N src.kind src.any (Vec.srcOk hs ht)
    rw [hl] at s
    refine ⟨fun h => by simp only [Api.convert, s.1 h, liftF], fun h => ?_⟩
    obtain ⟨r, e, hi, ha, hsz⟩ := s.2 (by omega)
    rw [he] at ha
    exact ⟨.f w r, by simp only [Api.convert, e, liftF], ⟨ht, hi⟩, ha, by simp only [Vec.ty, hsz]⟩
  | d =>
    have r := Bvd.convert_refines src.any (Vec.srcOk hs wok64)
    rw [he] at r
    exact ⟨.d (Bvd.convert src.any), rfl, r.1, r.2, rfl⟩
  | a =>
    have hk : src.kind = .bv → ∀ w1 (c : Raw w1), src.any = .f w1 c → w1 = 64 ∧ c.data.size = 2 := by
      intro hkind w1 c hc
      cases src with
      | f w r => cases hkind
      | d r => cases hkind
      | a y =>
        cases y with
        | fixed r => simp only [Vec.any, Bv.any] at hc; cases hc; exact ⟨rfl, hs.2⟩
        | dynamic r => simp only [Vec.any, Bv.any] at hc; cases hc
    have hdiv : div_AnyInv src.any := by
      have := hs.any
      cases h : src.any with
      | f w1 b => rw [h] at this; exact ⟨this.1.pos, this.2⟩
      | d b => rw [h] at this; exact this
    have hc : Compat (div_anyW src.any) 64 := by
      have := hs.any
      cases h : src.any with
      | f w1 b => rw [h] at this; exact this.1.compat wok64
      | d b => exact wok64.compat wok64
    have r := Bv.convert_refines src.kind src.any hdiv hc hk
    rw [he] at r
    exact ⟨.a (Bv.convert src.kind src.any), rfl, Vec.Inv.of_bvinv r.1, r.2, rfl⟩

/-- `new(into_inner(v)) = v`: both are the identity on the pair (storage, length) — the model *is* that pair -/
theorem C12_new_into_inner {w : Nat} (s : Raw w) : (⟨s.data, s.length⟩ : Raw w) = s := rfl

/-- a chain of conversions that all fit gives back a vector equal (in the sense of C09) to the original -/
theorem C12_roundtrip_value (t : Ty) (src r : Vec) (hs : src.Inv) (ht : match t with | .f w _ => WOk w | _ => True)
    (h : Api.convert t src = .ok r) : r.abs = src.abs := by
  have c := C12_convert t src hs ht
  cases t with
  | f w N =>
    simp only at c
    by_cases hf : src.len ≤ N * w
    · obtain ⟨r', e, _, ha, _⟩ := c.2 hf
      rw [h] at e; cases e; exact ha
    · have := c.1 (by omega); rw [h] at this; cases this
  | d => obtain ⟨r', e, _, ha, _⟩ := c; rw [h] at e; cases e; exact ha
  | a => obtain ⟨r', e, _, ha, _⟩ := c; rw [h] at e; cases e; exact ha

end Bva
