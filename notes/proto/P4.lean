import Mathlib.Tactic.Ring
import Mathlib.Tactic.Linarith
/-! prototype: one step of the schoolbook multiply row, with the no-overflow bound -/
namespace Proto4

/-- Nat-level statement of one inner-loop step:
    `product = a.wmul(b); carry' = res.cadd(product.0, carry) + product.1`
    where `a*b = lo + X*hi`, `res + lo + carry = r + X*c`. -/
theorem mul_step (X a b lo hi res carry r c : Nat) (hX : 0 < X)
    (ha : a < X) (hb : b < X) (hres : res < X) (hcarry : carry < X)
    (hlo : lo < X) (hr : r < X)
    (hprod : a * b = lo + X * hi)
    (hcadd : res + lo + carry = r + X * c) :
    c + hi < X ∧ r + X * (c + hi) = res + a * b + carry := by
  constructor
  · -- a*b ≤ (X-1)^2, so res + a*b + carry ≤ X^2 - 1
    have h1 : a * b ≤ (X - 1) * (X - 1) := Nat.mul_le_mul (by omega) (by omega)
    have h2 : (X - 1) * (X - 1) + 2 * (X - 1) + 1 = X * X := by
      obtain ⟨Y, rfl⟩ : ∃ Y, X = Y + 1 := ⟨X - 1, by omega⟩
      simp only [Nat.add_sub_cancel]; ring
    have h3 : r + X * (c + hi) = res + a * b + carry := by rw [hprod]; linarith
    have h4 : X * (c + hi) < X * X := by
      have : res + a * b + carry < X * X := by omega
      omega
    exact Nat.lt_of_mul_lt_mul_left h4
  · rw [hprod]; linarith

end Proto4
