/-! prototype: word array abstraction -/
namespace Proto

variable {w : Nat}

def bitAt (ws : Array (BitVec w)) (i : Nat) : Bool :=
  (ws.getD (i / w) 0#w).getLsbD (i % w)

def mask (w l : Nat) : BitVec w :=
  if l < w then (1#w <<< l) - 1#w else BitVec.allOnes w

theorem mask_eq_ofNat (l : Nat) (h : l < w) : (1#w <<< l) - 1#w = BitVec.ofNat w (2^l - 1) := by
  apply BitVec.eq_of_toNat_eq
  simp [BitVec.toNat_sub, Nat.shiftLeft_eq]
  have h2 : 2^l < 2^w := Nat.pow_lt_pow_right (by omega) h
  have h1 : 1 < 2^w := Nat.one_lt_two_pow (by omega)
  have hp : 0 < 2^l := Nat.two_pow_pos l
  rw [Nat.mod_eq_of_lt h1]
  have e : 2 ^ w - 1 + 2 ^ l = 2^w + (2^l - 1) := by omega
  rw [e, Nat.add_mod_left]

theorem getLsbD_mask (l i : Nat) : (mask w l).getLsbD i = (decide (i < w) && decide (i < l)) := by
  unfold mask
  split
  · rename_i h
    rw [mask_eq_ofNat l h]
    rw [BitVec.getLsbD_ofNat, Nat.testBit_two_pow_sub_one]
  · rename_i h
    by_cases hi : i < w
    · simp [hi]; omega
    · simp [hi]

def readBits (ws : Array (BitVec w)) (pos l : Nat) : BitVec w :=
  ((ws.getD (pos / w) 0#w) >>> (pos % w)) &&& mask w l

theorem div_add_of_fit (pos j : Nat) (hw : 0 < w) (h : pos % w + j < w) :
    (pos + j) / w = pos / w ∧ (pos + j) % w = pos % w + j := by
  have e1 := Nat.div_add_mod pos w
  have hd : (pos + j) / w = pos / w := by
    rw [Nat.div_eq_iff hw]
    have h3 : pos / w * w = w * (pos / w) := Nat.mul_comm _ _
    constructor <;> omega
  have e2 := Nat.div_add_mod (pos + j) w
  rw [hd] at e2
  exact ⟨hd, by omega⟩

theorem getLsbD_readBits (ws : Array (BitVec w)) (pos l j : Nat) (hw : 0 < w)
    (hfit : pos % w + l ≤ w) :
    (readBits ws pos l).getLsbD j = (decide (j < l) && bitAt ws (pos + j)) := by
  unfold readBits bitAt
  simp only [BitVec.getLsbD_and, BitVec.getLsbD_ushiftRight, getLsbD_mask]
  by_cases hj : j < l
  · obtain ⟨h1, h2⟩ := div_add_of_fit pos j hw (by omega)
    have : j < w := by omega
    simp [hj, h1, h2, this]
  · simp [hj]

/-- `data[pos/w] = (data[pos/w] & !(mask(l) << (pos%w))) | (d << (pos%w))` -/
def writeBits (ws : Array (BitVec w)) (pos l : Nat) (d : BitVec w) : Array (BitVec w) :=
  let j := pos / w
  let o := pos % w
  ws.setIfInBounds j (((ws.getD j 0#w) &&& ~~~ (mask w l <<< o)) ||| (d <<< o))

theorem bitAt_writeBits (ws : Array (BitVec w)) (pos l i : Nat) (d : BitVec w) (hw : 0 < w)
    (hfit : pos % w + l ≤ w) (hin : pos / w < ws.size)
    (hd : ∀ j, l ≤ j → d.getLsbD j = false) :
    bitAt (writeBits ws pos l d) i =
      if pos ≤ i ∧ i < pos + l then d.getLsbD (i - pos) else bitAt ws i := by
  unfold writeBits bitAt
  simp only [Array.getD_eq_getD_getElem?, Array.getElem?_setIfInBounds]
  by_cases hj : pos / w = i / w
  · have hlt : i / w < ws.size := by omega
    simp only [hj, if_true, hlt]
    simp only [Option.getD_some, BitVec.getLsbD_or, BitVec.getLsbD_and, BitVec.getLsbD_not,
      BitVec.getLsbD_shiftLeft, getLsbD_mask]
    have him : i % w < w := Nat.mod_lt _ hw
    have ei := Nat.div_add_mod i w
    have ep := Nat.div_add_mod pos w
    rw [hj] at ep
    by_cases hlo : i % w < pos % w
    · have : ¬ (pos ≤ i ∧ i < pos + l) := by omega
      simp [him, hlo, this]
    · have e3 : i - pos = i % w - pos % w := by omega
      by_cases hin2 : i % w - pos % w < l
      · have : pos ≤ i ∧ i < pos + l := by omega
        have hw2 : i % w - pos % w < w := by omega
        simp [him, hlo, this, hin2, e3, hw2]
      · have hn : ¬ (pos ≤ i ∧ i < pos + l) := by omega
        simp only [hn, if_false]
        have hlo' : decide (i % w < pos % w) = false := by simp; omega
        have hin' : decide (i % w - pos % w < l) = false := by simp; omega
        rw [hd (i % w - pos % w) (by omega)]
        simp [hlo', hin', him]
  · have : ¬ (pos ≤ i ∧ i < pos + l) := by
      intro ⟨h1, h2⟩
      obtain ⟨h3, _⟩ := div_add_of_fit pos (i - pos) hw (by omega)
      apply hj
      rw [← h3]; congr 1; omega
    simp [hj, this]



/-- first loop of `shr_assign` -/
def shrLoop1 (hw : 0 < w) (ws : Array (BitVec w)) (length shift newIdx : Nat) : Array (BitVec w) × Nat :=
  if h : newIdx + shift < length then
    let oldIdx := newIdx + shift
    let l := min (w - newIdx % w) (w - oldIdx % w)
    let d := readBits ws oldIdx l
    shrLoop1 hw (writeBits ws newIdx l d) length shift (newIdx + l)
  else (ws, newIdx)
termination_by length - newIdx
decreasing_by
  have := Nat.mod_lt newIdx hw
  have := Nat.mod_lt (newIdx + shift) hw
  omega

/-- second loop of `shr_assign` -/
def shrLoop2 (hw : 0 < w) (ws : Array (BitVec w)) (length newIdx : Nat) : Array (BitVec w) :=
  if h : newIdx < length then
    let l := w - newIdx % w
    shrLoop2 hw (writeBits ws newIdx l 0#w) length (newIdx + l)
  else ws
termination_by length - newIdx
decreasing_by
  have := Nat.mod_lt newIdx hw
  omega

def shrAssign (hw : 0 < w) (ws : Array (BitVec w)) (length shift : Nat) : Array (BitVec w) :=
  if shift = 0 then ws else
  let (ws1, n1) := shrLoop1 hw ws length shift 0
  shrLoop2 hw ws1 length n1

/-- storage holds `length` bits -/
def Fits (ws : Array (BitVec w)) (length : Nat) : Prop := length ≤ ws.size * w

theorem size_writeBits (ws : Array (BitVec w)) (pos l : Nat) (d : BitVec w) :
    (writeBits ws pos l d).size = ws.size := by
  simp [writeBits]

theorem readBits_high (ws : Array (BitVec w)) (pos l j : Nat) (h : l ≤ j) :
    (readBits ws pos l).getLsbD j = false := by
  unfold readBits
  simp only [BitVec.getLsbD_and, getLsbD_mask]
  have : decide (j < l) = false := by simp; omega
  simp [this]

theorem div_lt_of_lt_mul (i n : Nat) (hw : 0 < w) (h : i < n * w) : i / w < n := by
  exact (Nat.div_lt_iff_lt_mul hw).mpr h

theorem shrLoop1_spec (hw : 0 < w) (ws0 : Array (BitVec w)) (length shift : Nat)
    (hfit : Fits ws0 length) (ws : Array (BitVec w)) (newIdx : Nat) (hsz : ws.size = ws0.size)
    (hinv : ∀ i, bitAt ws i = if i < newIdx then bitAt ws0 (i + shift) else bitAt ws0 i) :
    (shrLoop1 hw ws length shift newIdx).1.size = ws0.size ∧
    length ≤ (shrLoop1 hw ws length shift newIdx).2 + shift ∧
    newIdx ≤ (shrLoop1 hw ws length shift newIdx).2 ∧
    (∀ i, bitAt (shrLoop1 hw ws length shift newIdx).1 i =
      if i < (shrLoop1 hw ws length shift newIdx).2 then bitAt ws0 (i + shift) else bitAt ws0 i) := by
  fun_induction shrLoop1 hw ws length shift newIdx with
  | case1 ws newIdx hlt oldIdx l d ih =>
    have m1 := Nat.mod_lt newIdx hw
    have m2 := Nat.mod_lt (newIdx + shift) hw
    have hl1 : 0 < l := by simp only [l, oldIdx]; omega
    have hfit1 : newIdx % w + l ≤ w := by simp only [l, oldIdx]; omega
    have hfit2 : oldIdx % w + l ≤ w := by simp only [l, oldIdx]; omega
    have hin : newIdx / w < ws.size := by
      rw [hsz]; apply div_lt_of_lt_mul _ _ hw; unfold Fits at hfit; omega
    have step := ih (by rw [size_writeBits]; exact hsz)
        (by
          intro i
          rw [bitAt_writeBits ws newIdx l i _ hw hfit1 hin (fun j hj => readBits_high ws _ l j hj)]
          split
          · rename_i hi
            rw [getLsbD_readBits ws _ l _ hw hfit2]
            have h1 : i - newIdx < l := by omega
            have e : oldIdx + (i - newIdx) = i + shift := by simp only [oldIdx]; omega
            have hlt2 : i < newIdx + l := by omega
            rw [e, hinv (i + shift)]
            have h3 : ¬ (i + shift < newIdx) := by omega
            simp [h1, hlt2, h3]
          · rename_i hi
            rw [hinv i]
            by_cases h1 : i < newIdx
            · have : i < newIdx + l := by omega
              simp [h1, this]
            · have : ¬ i < newIdx + l := by omega
              simp [h1, this])
    obtain ⟨s1, s2, s3, s4⟩ := step
    exact ⟨s1, s2, by omega, s4⟩
  | case2 ws newIdx hlt =>
    exact ⟨hsz, by omega, by omega, hinv⟩


end Proto
