import P1
/-! prototype: valUpTo/bitAt bridge and rotl chunk loop -/
namespace Proto
variable {w : Nat}

def valUpTo (ws : Array (BitVec w)) : Nat → Nat
  | 0 => 0
  | n+1 => valUpTo ws n + 2^(w*n) * (ws.getD n 0#w).toNat

theorem valUpTo_lt (ws : Array (BitVec w)) (n : Nat) : valUpTo ws n < 2^(w*n) := by
  induction n with
  | zero => simp [valUpTo]
  | succ n ih =>
    simp only [valUpTo]
    have h := (ws.getD n 0#w).isLt
    have e : 2^(w*(n+1)) = 2^(w*n) * 2^w := by rw [Nat.mul_succ, Nat.pow_add]
    rw [e]
    calc valUpTo ws n + 2^(w*n) * (ws.getD n 0#w).toNat
        < 2^(w*n) + 2^(w*n) * (ws.getD n 0#w).toNat := by omega
      _ = 2^(w*n) * ((ws.getD n 0#w).toNat + 1) := by rw [Nat.mul_add, Nat.mul_one, Nat.add_comm]
      _ ≤ 2^(w*n) * 2^w := Nat.mul_le_mul_left _ (by omega)

theorem testBit_valUpTo (hw : 0 < w) (ws : Array (BitVec w)) (n i : Nat) :
    (valUpTo ws n).testBit i = (decide (i < w*n) && bitAt ws i) := by
  induction n with
  | zero => simp [valUpTo]
  | succ n ih =>
    simp only [valUpTo]
    rw [Nat.add_comm, Nat.testBit_two_pow_mul_add _ (valUpTo_lt ws n)]
    split
    · rename_i h
      rw [ih]
      have : i < w*(n+1) := by rw [Nat.mul_succ]; omega
      simp [h, this]
    · rename_i h
      have hge : w*n ≤ i := by omega
      unfold bitAt
      by_cases h2 : i < w*(n+1)
      · have hd : i / w = n := by
          rw [Nat.div_eq_iff hw]; rw [Nat.mul_succ] at h2
          constructor
          · rw [Nat.mul_comm]; exact hge
          · rw [Nat.mul_comm]; omega
        have hm : i % w = i - w*n := by
          have := Nat.div_add_mod i w; rw [hd] at this; omega
        simp only [h2, hd, hm, decide_true, Bool.true_and]
        rfl
      · have : (ws.getD n 0#w).toNat.testBit (i - w*n) = false := by
          apply Nat.testBit_lt_two_pow
          calc (ws.getD n 0#w).toNat < 2^w := (ws.getD n 0#w).isLt
            _ ≤ 2^(i - w*n) := Nat.pow_le_pow_right (by omega) (by rw [Nat.mul_succ] at h2; omega)
        simp only [h2, decide_false, Bool.false_and]
        exact this

/-- Rust `rotl` loop. -/
def rotlLoop (hw : 0 < w) (old new : Array (BitVec w)) (length rot oldIdx : Nat) : Array (BitVec w) :=
  if h : oldIdx < length then
    let newIdx := (oldIdx + rot) % length
    let l := min (min (min (w - newIdx % w) (w - oldIdx % w)) (length - newIdx)) (length - oldIdx)
    let d := readBits old oldIdx l
    -- new_data[new_idx/w] |= d << (new_idx % w)
    rotlLoop hw old (new.setIfInBounds (newIdx / w) ((new.getD (newIdx / w) 0#w) ||| (d <<< (newIdx % w)))) length rot (oldIdx + l)
  else new
termination_by length - oldIdx
decreasing_by
  have := Nat.mod_lt oldIdx hw
  have h1 : (oldIdx + rot) % length < length := Nat.mod_lt _ (by omega)
  have := Nat.mod_lt ((oldIdx + rot) % length) hw
  omega



def orBits (ws : Array (BitVec w)) (pos : Nat) (d : BitVec w) : Array (BitVec w) :=
  ws.setIfInBounds (pos / w) ((ws.getD (pos / w) 0#w) ||| (d <<< (pos % w)))

theorem bitAt_orBits (ws : Array (BitVec w)) (pos l i : Nat) (d : BitVec w) (hw : 0 < w)
    (hfit : pos % w + l ≤ w) (hin : pos / w < ws.size)
    (hd : ∀ j, l ≤ j → d.getLsbD j = false) :
    bitAt (orBits ws pos d) i =
      (bitAt ws i || (decide (pos ≤ i ∧ i < pos + l) && d.getLsbD (i - pos))) := by
  unfold orBits bitAt
  simp only [Array.getD_eq_getD_getElem?, Array.getElem?_setIfInBounds]
  by_cases hj : pos / w = i / w
  · have hlt : i / w < ws.size := by omega
    simp only [hj, if_true, hlt]
    simp only [Option.getD_some, BitVec.getLsbD_or, BitVec.getLsbD_shiftLeft]
    have him : i % w < w := Nat.mod_lt _ hw
    have ei := Nat.div_add_mod i w
    have ep := Nat.div_add_mod pos w
    rw [hj] at ep
    by_cases hlo : i % w < pos % w
    · have : ¬ (pos ≤ i ∧ i < pos + l) := by omega
      simp [him, hlo, this]
    · have e3 : i - pos = i % w - pos % w := by omega
      by_cases hin2 : i % w - pos % w < l
      · have : pos ≤ i ∧ i < pos + l := by omega
        simp [him, hlo, this, e3]
      · have hn : ¬ (pos ≤ i ∧ i < pos + l) := by omega
        rw [hd (i % w - pos % w) (by omega)]
        simp [hn]
  · have : ¬ (pos ≤ i ∧ i < pos + l) := by
      intro ⟨h1, h2⟩
      obtain ⟨h3, _⟩ := div_add_of_fit pos (i - pos) hw (by omega)
      apply hj
      rw [← h3]; congr 1; omega
    simp [hj, this]

theorem size_orBits (ws : Array (BitVec w)) (pos : Nat) (d : BitVec w) :
    (orBits ws pos d).size = ws.size := by simp [orBits]

/-- `rotlLoop` restated with `orBits` -/
def rotlLoop' (hw : 0 < w) (old new : Array (BitVec w)) (length rot oldIdx : Nat) : Array (BitVec w) :=
  if h : oldIdx < length then
    let newIdx := (oldIdx + rot) % length
    let l := min (min (min (w - newIdx % w) (w - oldIdx % w)) (length - newIdx)) (length - oldIdx)
    rotlLoop' hw old (orBits new newIdx (readBits old oldIdx l)) length rot (oldIdx + l)
  else new
termination_by length - oldIdx
decreasing_by
  have := Nat.mod_lt oldIdx hw
  have h1 : (oldIdx + rot) % length < length := Nat.mod_lt _ (by omega)
  have := Nat.mod_lt ((oldIdx + rot) % length) hw
  omega

/-- target index of source bit j -/
def tgt (length rot j : Nat) : Nat := (j + rot) % length

theorem tgt_add (length rot j k : Nat) (hk : tgt length rot j + k < length) :
    tgt length rot (j + k) = tgt length rot j + k := by
  unfold tgt at *
  have hl : 0 < length := by omega
  rw [show j + k + rot = (j + rot) + k by omega, Nat.add_mod]
  have : k % length = k := Nat.mod_eq_of_lt (by omega)
  rw [this, Nat.mod_eq_of_lt hk]

theorem rotlLoop'_spec (hw : 0 < w) (old : Array (BitVec w)) (length rot : Nat)
    (new : Array (BitVec w)) (oldIdx : Nat) (hsz : length ≤ new.size * w)
    (hinv : ∀ i, bitAt new i = true ↔ ∃ j, j < oldIdx ∧ j < length ∧ tgt length rot j = i ∧ bitAt old j = true) :
    ∀ i, bitAt (rotlLoop' hw old new length rot oldIdx) i = true ↔
      ∃ j, j < length ∧ tgt length rot j = i ∧ bitAt old j = true := by
  fun_induction rotlLoop' hw old new length rot oldIdx with
  | case1 new oldIdx hlt newIdx l ih =>
    have hl0 : 0 < length := by omega
    have hn : newIdx < length := Nat.mod_lt _ hl0
    have m1 := Nat.mod_lt oldIdx hw
    have m2 := Nat.mod_lt newIdx hw
    have hl1 : 0 < l := by simp only [l]; omega
    have hf1 : newIdx % w + l ≤ w := by simp only [l]; omega
    have hf2 : oldIdx % w + l ≤ w := by simp only [l]; omega
    have hb1 : newIdx + l ≤ length := by simp only [l]; omega
    have hb2 : oldIdx + l ≤ length := by simp only [l]; omega
    have hin : newIdx / w < new.size := by
      apply div_lt_of_lt_mul _ _ hw; omega
    apply ih (by rw [size_orBits]; exact hsz)
    intro i
    rw [bitAt_orBits new newIdx l i _ hw hf1 hin (fun j hj => readBits_high old _ l j hj)]
    rw [Bool.or_eq_true, hinv i, Bool.and_eq_true, decide_eq_true_eq,
      getLsbD_readBits old _ l _ hw hf2, Bool.and_eq_true, decide_eq_true_eq]
    constructor
    · rintro (⟨j, h1, h2, h3, h4⟩ | ⟨⟨h1, h2⟩, h3, h4⟩)
      · exact ⟨j, by omega, h2, h3, h4⟩
      · refine ⟨oldIdx + (i - newIdx), by omega, by omega, ?_, h4⟩
        rw [tgt_add _ _ _ _ (by show newIdx + (i - newIdx) < length; omega)]
        show newIdx + (i - newIdx) = i
        omega
    · rintro ⟨j, h1, h2, h3, h4⟩
      by_cases hj : j < oldIdx
      · exact Or.inl ⟨j, hj, h2, h3, h4⟩
      · right
        have e : j = oldIdx + (j - oldIdx) := by omega
        have hnew : tgt length rot oldIdx = newIdx := rfl
        have ht : tgt length rot j = newIdx + (j - oldIdx) := by
          rw [e, tgt_add _ _ _ _ (by rw [hnew]; omega), hnew]
          omega
        have e2 : i - newIdx = j - oldIdx := by omega
        refine ⟨by omega, by omega, ?_⟩
        rw [e2, ← e]; exact h4
  | case2 new oldIdx hlt =>
    intro i
    rw [hinv i]
    constructor
    · rintro ⟨j, _, h2, h3, h4⟩; exact ⟨j, h2, h3, h4⟩
    · rintro ⟨j, h2, h3, h4⟩; exact ⟨j, by omega, h2, h3, h4⟩

end Proto
