/-! prototype: generic carry chain over a word array -/
namespace Proto5
variable {w : Nat}

def valFn (f : Nat → BitVec w) : Nat → Nat
  | 0 => 0
  | n+1 => valFn f n + 2^(w*n) * (f n).toNat

abbrev rd (a : Array (BitVec w)) : Nat → BitVec w := fun t => a.getD t 0#w

/-- `for t in i..i+k { carry = prim(&mut a[t], fetch(t), carry) }` -/
def chain (prim : BitVec w → BitVec w → BitVec w → BitVec w × BitVec w) (fetch : Nat → BitVec w)
    (a : Array (BitVec w)) (c : BitVec w) (i : Nat) : Nat → Array (BitVec w) × BitVec w
  | 0 => (a, c)
  | k+1 =>
    let r := prim (a.getD i 0#w) (fetch i) c
    chain prim fetch (a.setIfInBounds i r.1) r.2 (i+1) k

/-- what a full-adder primitive must satisfy (both Rust carry conventions do, for carry-in ≤ 1) -/
def IsAdder (prim : BitVec w → BitVec w → BitVec w → BitVec w × BitVec w) : Prop :=
  ∀ x y c : BitVec w, c.toNat ≤ 1 →
    (prim x y c).1.toNat + 2^w * (prim x y c).2.toNat = x.toNat + y.toNat + c.toNat ∧
    (prim x y c).2.toNat ≤ 1

theorem valFn_congr (f g : Nat → BitVec w) (n : Nat) (h : ∀ t, t < n → f t = g t) :
    valFn f n = valFn g n := by
  induction n with
  | zero => rfl
  | succ n ih =>
    simp only [valFn]
    rw [ih (fun t ht => h t (by omega)), h n (by omega)]

theorem rd_set (a : Array (BitVec w)) (i t : Nat) (x : BitVec w) (hi : i < a.size) :
    rd (a.setIfInBounds i x) t = if t = i then x else rd a t := by
  simp only [rd, Array.getD_eq_getD_getElem?, Array.getElem?_setIfInBounds]
  by_cases h : i = t
  · subst h; simp [hi]
  · have : ¬ t = i := fun e => h e.symm
    simp [h, this]

/-- value of the words `i .. i+k` of `f`, as a number -/
def seg (f : Nat → BitVec w) (i : Nat) : Nat → Nat
  | 0 => 0
  | k+1 => seg f i k + 2^(w*k) * (f (i+k)).toNat

theorem seg_split (f : Nat → BitVec w) (i m : Nat) :
    seg f i (m+1) = (f i).toNat + 2^w * seg f (i+1) m := by
  induction m with
  | zero => simp [seg]
  | succ m ihm =>
    rw [seg, ihm, seg]
    have e : i + (m + 1) = i + 1 + m := by omega
    have e2 : 2^(w*(m+1)) = 2^w * 2^(w*m) := by
      rw [Nat.mul_add, Nat.mul_one, Nat.pow_add, Nat.mul_comm]
    rw [e, e2, Nat.mul_add, Nat.mul_assoc]
    omega

theorem seg_congr (f g : Nat → BitVec w) (i k : Nat) (h : ∀ t, i ≤ t → t < i + k → f t = g t) :
    seg f i k = seg g i k := by
  induction k with
  | zero => rfl
  | succ k ih =>
    simp only [seg]
    rw [ih (fun t h1 h2 => h t h1 (by omega)), h (i+k) (by omega) (by omega)]

theorem chain_spec (prim : BitVec w → BitVec w → BitVec w → BitVec w × BitVec w)
    (hp : IsAdder prim) (fetch : Nat → BitVec w) (k : Nat) :
    ∀ (a : Array (BitVec w)) (c : BitVec w) (i : Nat), i + k ≤ a.size → c.toNat ≤ 1 →
      (chain prim fetch a c i k).1.size = a.size ∧
      (chain prim fetch a c i k).2.toNat ≤ 1 ∧
      (∀ t, t < i ∨ i + k ≤ t → rd (chain prim fetch a c i k).1 t = rd a t) ∧
      seg (rd (chain prim fetch a c i k).1) i k + 2^(w*k) * (chain prim fetch a c i k).2.toNat
        = seg (rd a) i k + seg fetch i k + c.toNat := by
  induction k with
  | zero =>
    intro a c i _ hc
    simp [chain, seg, hc]
  | succ k ih =>
    intro a c i hsz hc
    simp only [chain]
    obtain ⟨hadd, hcar⟩ := hp (a.getD i 0#w) (fetch i) c hc
    generalize hr : prim (a.getD i 0#w) (fetch i) c = r at hadd hcar
    have hi : i < a.size := by omega
    obtain ⟨s1, s2, s3, s4⟩ := ih (a.setIfInBounds i r.1) r.2 (i+1) (by simp; omega) hcar
    refine ⟨by simpa using s1, s2, ?_, ?_⟩
    · intro t ht
      rw [s3 t (by omega), rd_set a i t r.1 hi]
      have : ¬ t = i := by omega
      simp [this]
    · rw [seg_split, seg_split (rd a), seg_split fetch]
      have h0 : rd (chain prim fetch (a.setIfInBounds i r.1) r.2 (i+1) k).1 i = r.1 := by
        rw [s3 i (by omega), rd_set a i i r.1 hi]; simp
      have h1 : seg (rd (a.setIfInBounds i r.1)) (i+1) k = seg (rd a) (i+1) k := by
        apply seg_congr
        intro t h1 _
        rw [rd_set a i t r.1 hi]
        have : ¬ t = i := by omega
        simp [this]
      rw [h0]
      rw [h1] at s4
      have e3 : 2^(w*(k+1)) = 2^w * 2^(w*k) := by
        rw [Nat.mul_add, Nat.mul_one, Nat.pow_add, Nat.mul_comm]
      rw [e3, Nat.mul_assoc]
      have hd : (a.getD i 0#w) = rd a i := rfl
      rw [hd] at hadd
      have := congrArg (fun z => 2^w * z) s4
      simp only [Nat.mul_add] at this
      omega

end Proto5
