namespace Proto2
variable {w : Nat}

def valUpTo (ws : Array (BitVec w)) : Nat → Nat
  | 0 => 0
  | n+1 => valUpTo ws n + (ws.getD n 0#w).toNat * 2^(w*n)

/-- Rust `Integer::cadd`: returns (new self, carry out) -/
def cadd (a b c : BitVec w) : BitVec w × BitVec w :=
  let v1 := a + b
  let c1 := decide (2^w ≤ a.toNat + b.toNat)
  let v2 := v1 + c
  let c2 := decide (2^w ≤ v1.toNat + c.toNat)
  (v2, BitVec.ofNat w c1.toNat + BitVec.ofNat w c2.toNat)

theorem cadd_spec (hw : 2 ≤ w) (a b c : BitVec w) :
    (cadd a b c).1.toNat + 2^w * (cadd a b c).2.toNat = a.toNat + b.toNat + c.toNat := by
  have h4 : 4 ≤ 2^w := by
    calc 4 = 2^2 := rfl
      _ ≤ 2^w := Nat.pow_le_pow_right (by omega) hw
  have ha := a.isLt; have hb := b.isLt; have hc := c.isLt
  unfold cadd
  simp only [BitVec.toNat_add, BitVec.toNat_ofNat]
  by_cases h1 : 2^w ≤ a.toNat + b.toNat
  · have e1 : (a.toNat + b.toNat) % 2^w = a.toNat + b.toNat - 2^w := by
      rw [Nat.mod_eq_sub_mod h1, Nat.mod_eq_of_lt (by omega)]
    by_cases h2 : 2^w ≤ (a.toNat + b.toNat) % 2^w + c.toNat
    · have e2 : ((a.toNat + b.toNat) % 2^w + c.toNat) % 2^w = (a.toNat + b.toNat) % 2^w + c.toNat - 2^w := by
        rw [Nat.mod_eq_sub_mod h2, Nat.mod_eq_of_lt (by omega)]
      simp only [h1, h2, decide_true, Bool.toNat_true]
      rw [e2, e1]
      have : (1 % 2^w + 1 % 2^w) % 2^w = 2 := by
        rw [Nat.mod_eq_of_lt (by omega : 1 < 2^w)]; exact Nat.mod_eq_of_lt (by omega)
      rw [this]; omega
    · have e2 : ((a.toNat + b.toNat) % 2^w + c.toNat) % 2^w = (a.toNat + b.toNat) % 2^w + c.toNat :=
        Nat.mod_eq_of_lt (by omega)
      simp only [h1, h2, decide_true, decide_false, Bool.toNat_true, Bool.toNat_false]
      rw [e2, e1]
      have : (1 % 2^w + 0 % 2^w) % 2^w = 1 := by
        rw [Nat.mod_eq_of_lt (by omega : 1 < 2^w), Nat.zero_mod]; exact Nat.mod_eq_of_lt (by omega)
      rw [this]; omega
  · have e1 : (a.toNat + b.toNat) % 2^w = a.toNat + b.toNat := Nat.mod_eq_of_lt (by omega)
    by_cases h2 : 2^w ≤ (a.toNat + b.toNat) % 2^w + c.toNat
    · have e2 : ((a.toNat + b.toNat) % 2^w + c.toNat) % 2^w = (a.toNat + b.toNat) % 2^w + c.toNat - 2^w := by
        rw [Nat.mod_eq_sub_mod h2, Nat.mod_eq_of_lt (by omega)]
      simp only [h1, h2, decide_true, decide_false, Bool.toNat_true, Bool.toNat_false]
      rw [e2, e1]
      have : (0 % 2^w + 1 % 2^w) % 2^w = 1 := by
        rw [Nat.mod_eq_of_lt (by omega : 1 < 2^w), Nat.zero_mod]; exact Nat.mod_eq_of_lt (by omega)
      rw [this]; omega
    · have e2 : ((a.toNat + b.toNat) % 2^w + c.toNat) % 2^w = (a.toNat + b.toNat) % 2^w + c.toNat :=
        Nat.mod_eq_of_lt (by omega)
      simp only [h1, h2, decide_false, Bool.toNat_false]
      rw [e2, e1]
      simp

/-- `for i in lo..hi { carry = data[i].cadd(rhs[i], carry) }` -/
def addLoop (a b : Array (BitVec w)) (c : BitVec w) (i : Nat) : Nat → Array (BitVec w) × BitVec w
  | 0 => (a, c)
  | k+1 =>
    let r := cadd (a.getD i 0#w) (b.getD i 0#w) c
    addLoop (a.setIfInBounds i r.1) b r.2 (i+1) k

theorem valUpTo_set_ge (a : Array (BitVec w)) (i n : Nat) (x : BitVec w) (h : n ≤ i) :
    valUpTo (a.setIfInBounds i x) n = valUpTo a n := by
  induction n with
  | zero => rfl
  | succ n ih =>
    simp only [valUpTo]
    rw [ih (by omega)]
    congr 2
    simp [Array.getD_eq_getD_getElem?, Array.getElem?_setIfInBounds]
    intro h; omega

theorem addLoop_spec (hw : 2 ≤ w) (b : Array (BitVec w)) (k : Nat) :
    ∀ (a : Array (BitVec w)) (c : BitVec w) (i : Nat), i + k ≤ a.size →
    (addLoop a b c i k).1.size = a.size ∧
    valUpTo (addLoop a b c i k).1 (i+k) + 2^(w*(i+k)) * (addLoop a b c i k).2.toNat
      = valUpTo a i + 2^(w*i) * c.toNat + 2^(w*i) * (valUpTo a (i+k) - valUpTo a i + (valUpTo b (i+k) - valUpTo b i)) / 1 := by
  sorry
end Proto2
