#!/usr/bin/env python3
"""Regenerates MANIFEST.json from properties.jsonl and claims.json (which properties are claimed, and what is proved)."""
import json, os
ROOT = os.path.dirname(os.path.abspath(__file__))
props = [json.loads(l) for l in open(os.path.join(ROOT, 'properties.jsonl'))]
claims = json.load(open(os.path.join(ROOT, 'claims.json')))
checks, na = [], []
for p in props:
    c = claims.get(p['id'])
    if not c:
        na.append({"property_id": p['id'], "reason": "check not yet registered in this revision (Lean property module under construction; the correspondence harness for it exists, see DESIGN.md)"})
        continue
    checks.append({
        "property_id": p['id'],
        "quick_cmd": f"python3 check.py {p['id']} --tier quick",
        "thorough_cmd": f"python3 check.py {p['id']} --tier thorough",
        "evidence_file": f"/verif/evidence/{p['id']}.json",
        "replay_cmd_template": f"python3 check.py {p['id']} --replay {{path}}",
        "engine": "lean-refinement+correspondence",
        "level_claimed": {"category": "proof", "text": c['text'], "design_ref": c.get('design_ref', 'DESIGN.md section 6, ' + p['id'])},
        "level_note": c.get('note', "trusted: Lean kernel + propext/Classical.choice/Quot.sound; the hand-written L1 model is tied to /repo by a sampled differential correspondence check on every run (both build profiles); std pieces modelled by meaning (DESIGN.md 7)"),
        "technique": "machine-checked proof in Lean 4 (refinement L1 model -> L0 spec) + model/implementation correspondence check"
                     + ("; the word-level kernel (Integer::mask/cadd/csub/wmul) is re-translated from utils.rs on every run and proved equal to the model, with an SMT search for differing words when that equality breaks" if p['id'] in ("C01", "C02") else ""),
    })
m = {"version": 1, "setup_cmd": "./setup.sh",
     "hooks": {"guard": "bva_verif", "enable": "none needed: raw storage is reachable through the public API (into_inner, new, pub Bv variants); no hook commits exist",
               "baseline_off_cmd": "cd /repo && cargo test --workspace --no-fail-fast --offline", "source_commits": [], "add_only": True},
     "engines": [{"name": "lean-refinement+correspondence", "path": "/verif/check.py", "serves_properties": sorted(claims.keys()),
                  "kind_free_text": "Lean 4 proofs about a hand-written executable model (lean/BvaModel) + Rust harness / compiled Lean driver correspondence check"}],
     "checks": checks, "not_applicable": na,
     "notes": "Ten genuine defects of the pinned tree were repaired by unguarded 'fix:' commits in /repo (known_findings.txt, DESIGN.md 1.3)."}
json.dump(m, open(os.path.join(ROOT, 'MANIFEST.json'), 'w'), indent=1)
print("claimed:", len(checks), "not claimed:", len(na))
