#!/bin/sh
# Build everything the checks need from files on disk only (offline).
set -e
cd "$(dirname "$0")"
export CARGO_NET_OFFLINE=true
mkdir -p work replays evidence
[ -f harness/Cargo.lock ] || cp /repo/Cargo.lock harness/Cargo.lock 2>/dev/null || true
(cd lean && lake build)
(cd harness && cargo build --offline --bins && cargo build --offline --release --bins)
