//! Arithmetic / logic / shift operators for all type pairings (one syntactic form per operator:
//! the compound-assignment-by-reference form for + - & | ^, the by-reference form for * / %; shifts and `!` in
//! the requested form; all six forms of the binary operators are exercised side by side by h_forms).
use bva::{Bv, Bvd, Bvf};
use bva_harness::*;

/// all operators for one (LHS type, RHS type) pair of vectors
macro_rules! pair_fn {
    ($L:ty, $R:ty) => {{
        #[inline(never)]
        fn go(op: &str, a: &[&str]) -> String {
            let l = <$L>::parse(a[0]);
            let r = <$R>::parse(a[1]);
            let (lb, rb) = (l.dump(), r.dump());
            let res: $L = match op {
                "add" => { let mut x = l.clone(); x += &r; x }
                "sub" => { let mut x = l.clone(); x -= &r; x }
                "and" => { let mut x = l.clone(); x &= &r; x }
                "or" => { let mut x = l.clone(); x |= &r; x }
                "xor" => { let mut x = l.clone(); x ^= &r; x }
                "mul" => &l * &r,
                "div" => &l / &r,
                "rem" => &l % &r,
                _ => panic!("op {op}"),
            };
            assert_eq!(lb, l.dump(), "left operand modified");
            assert_eq!(rb, r.dump(), "right operand modified");
            format!("ok {}", res.dump())
        }
        go
    }};
}
macro_rules! uint_fn {
    ($L:ty) => {{
        #[inline(never)]
        fn go(op: &str, a: &[&str]) -> String {
            let l = <$L>::parse(a[0]);
            let (w, x) = parse_uint(a[1]);
            macro_rules! with { ($u:ty) => {{
                let r = x as $u;
                let res: $L = match op {
                    "add" => { let mut y = l.clone(); y += r; y }
                    "sub" => { let mut y = l.clone(); y -= &r; y }
                    "and" => { let mut y = l.clone(); y &= r; y }
                    "or" => { let mut y = l.clone(); y |= &r; y }
                    "xor" => { let mut y = l.clone(); y ^= r; y }
                    "mul" => &l * r,
                    "div" => &l / &r,
                    "rem" => &l % r,
                    "shl" => match a[2] { "vv" => l.clone() << r, "vr" => l.clone() << &r, "rv" => &l << r, "rr" => &l << &r,
                                           "av" => { let mut y = l.clone(); y <<= r; y } _ => { let mut y = l.clone(); y <<= &r; y } },
                    "shr" => match a[2] { "vv" => l.clone() >> r, "vr" => l.clone() >> &r, "rv" => &l >> r, "rr" => &l >> &r,
                                           "av" => { let mut y = l.clone(); y >>= r; y } _ => { let mut y = l.clone(); y >>= &r; y } },
                    _ => panic!("op {op}"),
                };
                res
            }}}
            let lb = l.dump();
            let res = match w { 8 => with!(u8), 16 => with!(u16), 32 => with!(u32), 64 => with!(u64), 128 => with!(u128), 65 => with!(usize), _ => panic!("width") };
            assert_eq!(lb, l.dump(), "left operand modified");
            format!("ok {}", res.dump())
        }
        go
    }};
}

macro_rules! rhs_dispatch {
    ($L:ty, $rtag:expr ; $($name:literal : $ty:ty),*) => {
        match $rtag { $( $name => pair_fn!($L, $ty), )* t => panic!("unknown type tag {}", t) }
    };
}
macro_rules! lhs_dispatch {
    ($ltag:expr, $rtag:expr, $is_uint:expr ; $($name:literal : $ty:ty),*) => {
        match $ltag { $( $name => { if $is_uint { uint_fn!($ty) } else { for_types!(rhs_dispatch!($ty, $rtag)) } } )* t => panic!("unknown type tag {}", t) }
    };
}

fn not_op(a: &[&str]) -> String {
    fn go<T: Sub>(tok: &str, form: &str) -> String
    where
        T: std::ops::Not<Output = T>,
        for<'a> &'a T: std::ops::Not<Output = T>,
    {
        let v = T::parse(tok);
        let vb = v.dump();
        let r = if form == "r" { !&v } else { !v.clone() };
        assert_eq!(vb, v.dump());
        format!("ok {}", r.dump())
    }
    for_types!(d1!(ty_tag(a[0]), go, (a[0], a[1])))
}

pub fn exec(t: &[&str]) -> String {
    let op = t[0];
    let a = &t[2..];
    if op == "not" {
        return not_op(a);
    }
    let ltag = ty_tag(a[0]);
    let is_uint = a[1].starts_with('u');
    let rtag = if is_uint { "" } else { ty_tag(a[1]) };
    let f: fn(&str, &[&str]) -> String = for_types!(lhs_dispatch!(ltag, rtag, is_uint));
    f(op, a)
}

