//! C20: every syntactic form of every binary operator, side by side, with operands re-read.
use bva::{BitVector, Bv, Bvd, Bvf};
use bva_harness::*;

macro_rules! forms {
    ($l:ident, $r:ident, $form:expr, $op:tt, $opa:tt) => {
        match $form {
            "vv" => $l.clone() $op $r.clone(),
            "vr" => $l.clone() $op &$r,
            "rv" => &$l $op $r.clone(),
            "rr" => &$l $op &$r,
            "av" => { let mut x = $l.clone(); x $opa $r.clone(); x }
            "ar" => { let mut x = $l.clone(); x $opa &$r; x }
            f => panic!("form {f}"),
        }
    };
}
macro_rules! all_ops {
    ($L:ty, $l:ident, $r:ident, $op:expr, $form:expr) => {{
        let res: $L = match $op {
            "add" => forms!($l, $r, $form, +, +=),
            "sub" => forms!($l, $r, $form, -, -=),
            "mul" => forms!($l, $r, $form, *, *=),
            "div" => forms!($l, $r, $form, /, /=),
            "rem" => forms!($l, $r, $form, %, %=),
            "and" => forms!($l, $r, $form, &, &=),
            "or" => forms!($l, $r, $form, |, |=),
            "xor" => forms!($l, $r, $form, ^, ^=),
            o => panic!("op {o}"),
        };
        res
    }};
}
macro_rules! pair_fn {
    ($L:ty, $R:ty) => {{
        #[inline(never)]
        fn go(op: &str, a: &[&str]) -> String {
            let l = <$L>::parse(a[0]);
            let r = <$R>::parse(a[1]);
            let (lb, rb) = (l.dump(), r.dump());
            let res = all_ops!($L, l, r, op, a[2]);
            assert_eq!(lb, l.dump(), "left operand modified");
            assert_eq!(rb, r.dump(), "right operand modified");
            format!("ok {}", res.dump())
        }
        go
    }};
}
macro_rules! uint_fn {
    ($L:ty) => {{
        #[inline(never)]
        fn go(op: &str, a: &[&str]) -> String {
            let l = <$L>::parse(a[0]);
            let (w, x) = parse_uint(a[1]);
            let lb = l.dump();
            macro_rules! with { ($u:ty) => {{ let r = x as $u; let res: $L = match op {
                "shl" => forms!(l, r, a[2], <<, <<=),
                "shr" => forms!(l, r, a[2], >>, >>=),
                _ => all_ops!($L, l, r, op, a[2]) }; res }} }
            let res = match w { 8 => with!(u8), 16 => with!(u16), 32 => with!(u32), 64 => with!(u64), 128 => with!(u128), 65 => with!(usize), _ => panic!("width") };
            assert_eq!(lb, l.dump(), "left operand modified");
            format!("ok {}", res.dump())
        }
        go
    }};
}
macro_rules! lhs {
    ($L:ty, $rtag:expr, $is_uint:expr) => {
        if $is_uint { uint_fn!($L) } else {
            match $rtag {
                "F8x3" => pair_fn!($L, Bvf<u8, 3>),
                "F16x2" => pair_fn!($L, Bvf<u16, 2>),
                "F32x1" => pair_fn!($L, Bvf<u32, 1>),
                "F64x2" => pair_fn!($L, Bvf<u64, 2>),
                "F128x3" => pair_fn!($L, Bvf<u128, 3>),
                "D" => pair_fn!($L, Bvd),
                "A" => pair_fn!($L, Bv),
                t => panic!("rhs type {t}"),
            }
        }
    };
}

fn exec(t: &[&str]) -> String {
    let op = t[0];
    let a = &t[2..];
    let ltag = ty_tag(a[0]);
    let is_uint = a[1].starts_with('u');
    let rtag = if is_uint { "" } else { ty_tag(a[1]) };
    let f: fn(&str, &[&str]) -> String = match ltag {
        "F8x3" => lhs!(Bvf<u8, 3>, rtag, is_uint),
        "F32x1" => lhs!(Bvf<u32, 1>, rtag, is_uint),
        "F64x2" => lhs!(Bvf<u64, 2>, rtag, is_uint),
        "F64x5" => lhs!(Bvf<u64, 5>, rtag, is_uint),
        "F128x3" => lhs!(Bvf<u128, 3>, rtag, is_uint),
        "D" => lhs!(Bvd, rtag, is_uint),
        "A" => lhs!(Bv, rtag, is_uint),
        t => panic!("lhs type {t}"),
    };
    f(op, a)
}

const LHS: [&str; 7] = ["F8x3", "F32x1", "F64x2", "F64x5", "F128x3", "D", "A"];
const RHS: [&str; 7] = ["F8x3", "F16x2", "F32x1", "F64x2", "F128x3", "D", "A"];
const FORMS: [&str; 6] = ["vv", "vr", "rv", "rr", "av", "ar"];
const OPS: [&str; 8] = ["add", "sub", "mul", "div", "rem", "and", "or", "xor"];

fn generate(fam: &str, seed: u64, tier: &str, emit: Emit) {
    assert_eq!(fam, "C20");
    let mut rng = Rng::new(seed ^ 0xC20);
    let rng = &mut rng;
    let reps = if tier == "thorough" { 60 } else if tier == "amp" { 18 } else { 3 };
    for lt in LHS {
        let lty = ty_of(lt);
        for rt in RHS {
            let rty = ty_of(rt);
            for rep in 0..(reps + 7) {
                // the last repetitions use carry / borrow patterns: zeros, ones, one bit on a word boundary, low word only,
                // and the maxima of the native widths (2^64-1, 2^128-1, 2^32-1) zero-extended
                let l = if rep < reps { gen_vec(rng, &lty, 200) } else {
                    let len = lty.cap().unwrap_or(64 * (2 + rng.below(4))).min(320);
                    let bits: Vec<bool> = match rep - reps {
                        0 => vec![false; len],
                        1 => vec![true; len],
                        2 => { let k = (64 * rng.below(len / 64 + 1)).min(len - 1); (0..len).map(|i| i == k).collect() }
                        3 => (0..len).map(|i| i < 8 && rng.chance(1, 2)).collect(),
                        4 => (0..len).map(|i| i < 128).collect(),
                        5 => (0..len).map(|i| i < 64).collect(),
                        _ => (0..len).map(|i| i < 32).collect(),
                    };
                    vec_token(&lty, &bits, rng.below(2), rng.chance(1, 3))
                };
                let rl = if rep >= reps + 4 { (129 + rng.below(60)).min(rty.cap().unwrap_or(200)) } else { gen_len(rng, &rty, 200).min(200) };
                let mut rb = gen_bits(rng, rl);
                if rep >= reps + 4 && rl > 0 { rb[rl - 1] = true; }
                if rl > 0 && rb.iter().all(|x| !x) && rng.chance(3, 4) {
                    rb[rng.below(rl)] = true;
                }
                let r = vec_token(&rty, &rb, rng.below(2), rng.chance(1, 3));
                for op in OPS {
                    for f in FORMS {
                        emit(format!("{} {} {} {} {}", op, DBG, l, r, f));
                    }
                }
            }
        }
        // shifts: every form, every integer type, amounts around the length, the word size and the usize limit
        for _ in 0..(reps * 2) {
            let l = gen_vec(rng, &lty, 200);
            let len = tok_len(&l);
            let ks: Vec<u128> = vec![0, 1, lty.w as u128, len as u128, len.saturating_sub(1) as u128, rng.below(len + 2) as u128,
                u64::MAX as u128, 1u128 << 64, (1u128 << 64) + rng.below(len + 1) as u128, u128::MAX, 1u128 << 32];
            for k in ks {
                let mut cands: Vec<usize> = vec![];
                for w in [8usize, 16, 32, 64, 65, 128] {
                    let bits = if w == 65 { 64 } else { w };
                    if bits == 128 || k < (1u128 << bits) { cands.push(w); }
                }
                let ut = *rng.pick(&cands);
                let tok = if ut == 65 { format!("us:{:x}", k) } else { format!("u{}:{:x}", ut, k) };
                for op in ["shl", "shr"] {
                    for f in FORMS {
                        emit(format!("{} {} {} {} {}", op, DBG, l, tok, f));
                    }
                }
            }
        }
        for rep in 0..(reps * 3 + 6) {
            let l = if rep < reps * 3 { gen_vec(rng, &lty, 200) } else {
                let len = lty.cap().unwrap_or(64 * (2 + rng.below(4))).min(320);
                let bits: Vec<bool> = match (rep - reps * 3) % 3 {
                    0 => vec![false; len],
                    1 => vec![true; len],
                    _ => { let k = (64 * rng.below(len / 64 + 1)).min(len - 1); (0..len).map(|i| i == k).collect() }
                };
                vec_token(&lty, &bits, rng.below(2), rng.chance(1, 3))
            };
            let r = if rep < reps * 3 { gen_uint(rng) } else { ["u8:1", "u64:1", "u128:1", "u16:ffff", "u64:ffffffffffffffff", "u32:2"][rng.below(6)].to_string() };
            let (w, x) = parse_uint(&r);
            let wb = if w == 65 { 64 } else { w };
            // the same integer as a vector built from it
            let bits: Vec<bool> = (0..wb).map(|i| (x >> i) & 1 == 1).collect();
            let rv = vec_token(&ty_of("D"), &bits, 0, false);
            for op in OPS {
                for f in FORMS {
                    emit(format!("{} {} {} {} {}", op, DBG, l, r, f));
                }
                emit(format!("{} {} {} {} {}", op, DBG, l, rv, "rr"));
            }
        }
    }
}

fn main() {
    harness_main(generate, exec);
}
