//! Everything except the arithmetic/logic operator families: constructors, edits, slices, counts,
//! bytes, formatting, parsing, hashing, conversions, iterators, capacity.
use bva::{Bit, BitVector, Bv, Bvd, Bvf, Endianness};
use bva_harness::*;
use std::hash::{Hash, Hasher};

fn endian(t: &str) -> Endianness {
    if t == "big" {
        Endianness::Big
    } else {
        Endianness::Little
    }
}
fn ok1(s: String) -> String {
    format!("ok {}", s)
}

/// records the exact `write_*` calls
#[derive(Default)]
struct RecHasher(Vec<(usize, u128)>);
impl Hasher for RecHasher {
    fn finish(&self) -> u64 {
        0
    }
    fn write(&mut self, bytes: &[u8]) {
        for b in bytes {
            self.0.push((8, *b as u128));
        }
    }
    fn write_u8(&mut self, i: u8) {
        self.0.push((8, i as u128));
    }
    fn write_u16(&mut self, i: u16) {
        self.0.push((16, i as u128));
    }
    fn write_u32(&mut self, i: u32) {
        self.0.push((32, i as u128));
    }
    fn write_u64(&mut self, i: u64) {
        self.0.push((64, i as u128));
    }
    fn write_u128(&mut self, i: u128) {
        self.0.push((128, i));
    }
    fn write_usize(&mut self, i: usize) {
        self.0.push((64, i as u128));
    }
}

macro_rules! fmt_table {
    ($kind:expr, $spec:expr, $v:expr) => {
        match ($kind, $spec) {
        ("d", "S20.n.0.0.0.-") => format!("{:}", $v),
        ("b", "S20.n.0.0.0.-") => format!("{:b}", $v),
        ("o", "S20.n.0.0.0.-") => format!("{:o}", $v),
        ("x", "S20.n.0.0.0.-") => format!("{:x}", $v),
        ("X", "S20.n.0.0.0.-") => format!("{:X}", $v),
        ("d", "S20.n.0.1.0.-") => format!("{:#}", $v),
        ("b", "S20.n.0.1.0.-") => format!("{:#b}", $v),
        ("o", "S20.n.0.1.0.-") => format!("{:#o}", $v),
        ("x", "S20.n.0.1.0.-") => format!("{:#x}", $v),
        ("X", "S20.n.0.1.0.-") => format!("{:#X}", $v),
        ("d", "S20.n.1.0.0.-") => format!("{:+}", $v),
        ("b", "S20.n.1.0.0.-") => format!("{:+b}", $v),
        ("o", "S20.n.1.0.0.-") => format!("{:+o}", $v),
        ("x", "S20.n.1.0.0.-") => format!("{:+x}", $v),
        ("X", "S20.n.1.0.0.-") => format!("{:+X}", $v),
        ("d", "S20.n.1.1.0.-") => format!("{:+#}", $v),
        ("b", "S20.n.1.1.0.-") => format!("{:+#b}", $v),
        ("o", "S20.n.1.1.0.-") => format!("{:+#o}", $v),
        ("x", "S20.n.1.1.0.-") => format!("{:+#x}", $v),
        ("X", "S20.n.1.1.0.-") => format!("{:+#X}", $v),
        ("d", "S20.n.0.0.1.8") => format!("{:08}", $v),
        ("b", "S20.n.0.0.1.8") => format!("{:08b}", $v),
        ("o", "S20.n.0.0.1.8") => format!("{:08o}", $v),
        ("x", "S20.n.0.0.1.8") => format!("{:08x}", $v),
        ("X", "S20.n.0.0.1.8") => format!("{:08X}", $v),
        ("d", "S20.n.0.1.1.10") => format!("{:#010}", $v),
        ("b", "S20.n.0.1.1.10") => format!("{:#010b}", $v),
        ("o", "S20.n.0.1.1.10") => format!("{:#010o}", $v),
        ("x", "S20.n.0.1.1.10") => format!("{:#010x}", $v),
        ("X", "S20.n.0.1.1.10") => format!("{:#010X}", $v),
        ("d", "S20.n.1.1.1.12") => format!("{:+#012}", $v),
        ("b", "S20.n.1.1.1.12") => format!("{:+#012b}", $v),
        ("o", "S20.n.1.1.1.12") => format!("{:+#012o}", $v),
        ("x", "S20.n.1.1.1.12") => format!("{:+#012x}", $v),
        ("X", "S20.n.1.1.1.12") => format!("{:+#012X}", $v),
        ("d", "S20.n.0.0.0.12") => format!("{:12}", $v),
        ("b", "S20.n.0.0.0.12") => format!("{:12b}", $v),
        ("o", "S20.n.0.0.0.12") => format!("{:12o}", $v),
        ("x", "S20.n.0.0.0.12") => format!("{:12x}", $v),
        ("X", "S20.n.0.0.0.12") => format!("{:12X}", $v),
        ("d", "S20.l.0.0.0.12") => format!("{:<12}", $v),
        ("b", "S20.l.0.0.0.12") => format!("{:<12b}", $v),
        ("o", "S20.l.0.0.0.12") => format!("{:<12o}", $v),
        ("x", "S20.l.0.0.0.12") => format!("{:<12x}", $v),
        ("X", "S20.l.0.0.0.12") => format!("{:<12X}", $v),
        ("d", "S20.r.0.0.0.12") => format!("{:>12}", $v),
        ("b", "S20.r.0.0.0.12") => format!("{:>12b}", $v),
        ("o", "S20.r.0.0.0.12") => format!("{:>12o}", $v),
        ("x", "S20.r.0.0.0.12") => format!("{:>12x}", $v),
        ("X", "S20.r.0.0.0.12") => format!("{:>12X}", $v),
        ("d", "S20.c.0.0.0.12") => format!("{:^12}", $v),
        ("b", "S20.c.0.0.0.12") => format!("{:^12b}", $v),
        ("o", "S20.c.0.0.0.12") => format!("{:^12o}", $v),
        ("x", "S20.c.0.0.0.12") => format!("{:^12x}", $v),
        ("X", "S20.c.0.0.0.12") => format!("{:^12X}", $v),
        ("d", "S2a.l.0.0.0.12") => format!("{:*<12}", $v),
        ("b", "S2a.l.0.0.0.12") => format!("{:*<12b}", $v),
        ("o", "S2a.l.0.0.0.12") => format!("{:*<12o}", $v),
        ("x", "S2a.l.0.0.0.12") => format!("{:*<12x}", $v),
        ("X", "S2a.l.0.0.0.12") => format!("{:*<12X}", $v),
        ("d", "S2a.c.0.0.0.13") => format!("{:*^13}", $v),
        ("b", "S2a.c.0.0.0.13") => format!("{:*^13b}", $v),
        ("o", "S2a.c.0.0.0.13") => format!("{:*^13o}", $v),
        ("x", "S2a.c.0.0.0.13") => format!("{:*^13x}", $v),
        ("X", "S2a.c.0.0.0.13") => format!("{:*^13X}", $v),
        ("d", "S5f.r.1.1.0.20") => format!("{:_>+#20}", $v),
        ("b", "S5f.r.1.1.0.20") => format!("{:_>+#20b}", $v),
        ("o", "S5f.r.1.1.0.20") => format!("{:_>+#20o}", $v),
        ("x", "S5f.r.1.1.0.20") => format!("{:_>+#20x}", $v),
        ("X", "S5f.r.1.1.0.20") => format!("{:_>+#20X}", $v),
        ("d", "S20.n.0.0.0.1") => format!("{:1}", $v),
        ("b", "S20.n.0.0.0.1") => format!("{:1b}", $v),
        ("o", "S20.n.0.0.0.1") => format!("{:1o}", $v),
        ("x", "S20.n.0.0.0.1") => format!("{:1x}", $v),
        ("X", "S20.n.0.0.0.1") => format!("{:1X}", $v),
        ("d", "S23.l.0.0.0.1") => format!("{:#<1}", $v),
        ("b", "S23.l.0.0.0.1") => format!("{:#<1b}", $v),
        ("o", "S23.l.0.0.0.1") => format!("{:#<1o}", $v),
        ("x", "S23.l.0.0.0.1") => format!("{:#<1x}", $v),
        ("X", "S23.l.0.0.0.1") => format!("{:#<1X}", $v),
        ("d", "S30.l.0.0.0.9") => format!("{:0<9}", $v),
        ("b", "S30.l.0.0.0.9") => format!("{:0<9b}", $v),
        ("o", "S30.l.0.0.0.9") => format!("{:0<9o}", $v),
        ("x", "S30.l.0.0.0.9") => format!("{:0<9x}", $v),
        ("X", "S30.l.0.0.0.9") => format!("{:0<9X}", $v),
        ("d", "S20.l.0.0.1.9") => format!("{:<09}", $v),
        ("b", "S20.l.0.0.1.9") => format!("{:<09b}", $v),
        ("o", "S20.l.0.0.1.9") => format!("{:<09o}", $v),
        ("x", "S20.l.0.0.1.9") => format!("{:<09x}", $v),
        ("X", "S20.l.0.0.1.9") => format!("{:<09X}", $v),
        ("d", "S20.c.1.1.1.30") => format!("{:^+#030}", $v),
        ("b", "S20.c.1.1.1.30") => format!("{:^+#030b}", $v),
        ("o", "S20.c.1.1.1.30") => format!("{:^+#030o}", $v),
        ("x", "S20.c.1.1.1.30") => format!("{:^+#030x}", $v),
        ("X", "S20.c.1.1.1.30") => format!("{:^+#030X}", $v),
        ("d", "S20.n.0.0.0.40") => format!("{:40}", $v),
        ("b", "S20.n.0.0.0.40") => format!("{:40b}", $v),
        ("o", "S20.n.0.0.0.40") => format!("{:40o}", $v),
        ("x", "S20.n.0.0.0.40") => format!("{:40x}", $v),
        ("X", "S20.n.0.0.0.40") => format!("{:40X}", $v),
        ("d", "S20.n.0.1.0.40") => format!("{:#40}", $v),
        ("b", "S20.n.0.1.0.40") => format!("{:#40b}", $v),
        ("o", "S20.n.0.1.0.40") => format!("{:#40o}", $v),
        ("x", "S20.n.0.1.0.40") => format!("{:#40x}", $v),
        ("X", "S20.n.0.1.0.40") => format!("{:#40X}", $v),
        ("d", "Se9.c.0.0.0.11") => format!("{:é^11}", $v),
        ("b", "Se9.c.0.0.0.11") => format!("{:é^11b}", $v),
        ("o", "Se9.c.0.0.0.11") => format!("{:é^11o}", $v),
        ("x", "Se9.c.0.0.0.11") => format!("{:é^11x}", $v),
        ("X", "Se9.c.0.0.0.11") => format!("{:é^11X}", $v),
        ("d", "S20.c.0.1.0.7") => format!("{:^#7}", $v),
        ("b", "S20.c.0.1.0.7") => format!("{:^#7b}", $v),
        ("o", "S20.c.0.1.0.7") => format!("{:^#7o}", $v),
        ("x", "S20.c.0.1.0.7") => format!("{:^#7x}", $v),
        ("X", "S20.c.0.1.0.7") => format!("{:^#7X}", $v),
        ("d", "S2d.r.1.0.0.3") => format!("{:->+3}", $v),
        ("b", "S2d.r.1.0.0.3") => format!("{:->+3b}", $v),
        ("o", "S2d.r.1.0.0.3") => format!("{:->+3o}", $v),
        ("x", "S2d.r.1.0.0.3") => format!("{:->+3x}", $v),
        ("X", "S2d.r.1.0.0.3") => format!("{:->+3X}", $v),
        ("d", "S20.n.0.1.1.200") => format!("{:#0200}", $v),
        ("b", "S20.n.0.1.1.200") => format!("{:#0200b}", $v),
        ("o", "S20.n.0.1.1.200") => format!("{:#0200o}", $v),
        ("x", "S20.n.0.1.1.200") => format!("{:#0200x}", $v),
        ("X", "S20.n.0.1.1.200") => format!("{:#0200X}", $v),
        ("d", "S20.l.0.1.0.140") => format!("{:<#140}", $v),
        ("b", "S20.l.0.1.0.140") => format!("{:<#140b}", $v),
        ("o", "S20.l.0.1.0.140") => format!("{:<#140o}", $v),
        ("x", "S20.l.0.1.0.140") => format!("{:<#140x}", $v),
        ("X", "S20.l.0.1.0.140") => format!("{:<#140X}", $v),
            (k, s) => panic!("unknown format spec {} {}", k, s),
        }
    };
}
pub const FMT_SPECS: &[&str] = &["S20.n.0.0.0.-", "S20.n.0.1.0.-", "S20.n.1.0.0.-", "S20.n.1.1.0.-", "S20.n.0.0.1.8", "S20.n.0.1.1.10", "S20.n.1.1.1.12", "S20.n.0.0.0.12", "S20.l.0.0.0.12", "S20.r.0.0.0.12", "S20.c.0.0.0.12", "S2a.l.0.0.0.12", "S2a.c.0.0.0.13", "S5f.r.1.1.0.20", "S20.n.0.0.0.1", "S23.l.0.0.0.1", "S30.l.0.0.0.9", "S20.l.0.0.1.9", "S20.c.1.1.1.30", "S20.n.0.0.0.40", "S20.n.0.1.0.40", "Se9.c.0.0.0.11", "S20.c.0.1.0.7", "S2d.r.1.0.0.3", "S20.n.0.1.1.200", "S20.l.0.1.0.140"];

// ---- single-subject operations: formatting under a format spec --------------------------------------------------
#[inline(never)]
fn fmtspec<T: Sub>(a: &[&str]) -> String
where
    for<'x> u128: TryFrom<&'x T>,
{
    let v = T::parse(a[0]);
    // `R<fill>.<align>.<+>.<#>.<0>.<width>`: generated table with the width supplied at run time; `S…`: literal format strings
    if let Some(rest) = a[2].strip_prefix('R') {
        let (key, w) = rest.rsplit_once('.').unwrap();
        let w: usize = w.parse().unwrap();
        let s = fmt_rt!(a[1], key, w, v);
        let agree = match u128::try_from(&v) {
            Ok(x) => s == fmt_rt!(a[1], key, w, x),
            Err(_) => true,
        };
        return format!("ok {} {}", chars_token(&s), tok_bool(agree));
    }
    let s = fmt_table!(a[1], a[2], v);
    // model-free oracle: Rust's own formatting of the same value as a u128 (when it fits)
    let agree = match u128::try_from(&v) {
        Ok(x) => s == fmt_table!(a[1], a[2], x),
        Err(_) => true,
    };
    format!("ok {} {}", chars_token(&s), tok_bool(agree))
}

/// an iterator over bits whose `size_hint` is deliberately weak: none at all, a lower bound of half the length only,
/// or an upper bound only (what `from_fn`, `flat_map`, `filter` … report)
#[derive(Clone, Copy)]
enum Hint { None, Lower, Upper }
struct Hinted { bits: Vec<bool>, pos: usize, hint: Hint }
impl Iterator for Hinted {
    type Item = Bit;
    fn next(&mut self) -> Option<Bit> {
        let b = self.bits.get(self.pos).copied()?;
        self.pos += 1;
        Some(bit_of(b))
    }
    fn size_hint(&self) -> (usize, Option<usize>) {
        let rem = self.bits.len() - self.pos;
        match self.hint {
            Hint::None => (0, None),
            Hint::Lower => (rem / 2, None),
            Hint::Upper => (0, Some(rem)),
        }
    }
}
fn hinted(bits: Vec<bool>, hint: Hint) -> Hinted { Hinted { bits, pos: 0, hint } }

/// an iterator that is not fused: it yields the bits, then `None`, and if asked again five more ones before its final `None`
/// (what `from_fn` over a stream with separators, or `try_iter` on a channel, can do). A consumer must stop at the first `None`.
struct Resuming { bits: Vec<bool>, pos: usize, paused: bool, extra: usize }
impl Iterator for Resuming {
    type Item = Bit;
    fn next(&mut self) -> Option<Bit> {
        if self.pos < self.bits.len() {
            self.pos += 1;
            return Some(bit_of(self.bits[self.pos - 1]));
        }
        if !self.paused {
            self.paused = true;
            return None;
        }
        if self.extra > 0 {
            self.extra -= 1;
            return Some(Bit::One);
        }
        None
    }
}
fn resuming(bits: Vec<bool>) -> Resuming { Resuming { bits, pos: 0, paused: false, extra: 5 } }

// ---- constructors (by type tag) -------------------------------------------------------------------
#[inline(never)]
fn ctor<T: Sub + FromIterator<Bit>>(op: &str, a: &[&str]) -> String {
    match op {
        "zeros" => ok1(T::zeros(a[0].parse().unwrap()).dump()),
        "ones" => ok1(T::ones(a[0].parse().unwrap()).dump()),
        "repeat" => ok1(T::repeat(bit_of(a[0] == "1"), a[1].parse().unwrap()).dump()),
        "with_capacity" => {
            let v = T::with_capacity(a[0].parse().unwrap());
            format!("ok {} n:{}", v.dump(), v.capacity())
        }
        "from_binary" => match T::from_binary(parse_chars(a[0])) {
            Ok(v) => ok1(v.dump()),
            Err(e) => format!("err {:?}", e),
        },
        "from_hex" => match T::from_hex(parse_chars(a[0])) {
            Ok(v) => ok1(v.dump()),
            Err(e) => format!("err {:?}", e),
        },
        "from_bytes" => match T::from_bytes(parse_bytes(a[0]), endian(a[1])) {
            Ok(v) => ok1(v.dump()),
            Err(e) => format!("err {:?}", e),
        },
        "read" => {
            let bytes = parse_bytes(a[0]);
            let mut r: &[u8] = &bytes[..];
            let whole = match T::read(&mut r, a[1].parse().unwrap(), endian(a[2])) {
                Ok(v) => format!("ok {} {}", v.dump(), bytes_token(r)),
                Err(e) => format!("err {:?}", e.kind()),
            };
            // The `Read` contract allows short counts and `Interrupted`: the same bytes offered through readers that hand out
            // 1 byte per call, or 3 bytes per call after an initial `Interrupted`, must give the same vector and leave the same rest.
            struct Dribble<'a> {
                data: &'a [u8],
                step: usize,
                interrupt: bool,
            }
            impl<'a> std::io::Read for Dribble<'a> {
                fn read(&mut self, buf: &mut [u8]) -> std::io::Result<usize> {
                    if self.interrupt {
                        self.interrupt = false;
                        return Err(std::io::Error::from(std::io::ErrorKind::Interrupted));
                    }
                    let n = buf.len().min(self.step).min(self.data.len());
                    buf[..n].copy_from_slice(&self.data[..n]);
                    self.data = &self.data[n..];
                    Ok(n)
                }
            }
            let mut out = whole.clone();
            for (step, interrupt) in [(1usize, false), (3usize, true)] {
                let mut d = Dribble { data: &bytes[..], step, interrupt };
                let part = match T::read(&mut d, a[1].parse().unwrap(), endian(a[2])) {
                    Ok(v) => format!("ok {} {}", v.dump(), bytes_token(d.data)),
                    Err(e) => format!("err {:?}", e.kind()),
                };
                // on a short input `read_exact` leaves the amount consumed unspecified: only the verdict is compared there
                if part != whole {
                    // report the deviating result in the ordinary output format, so that it is compared (and differs) like any other
                    eprintln!("read through a reader with step={} interrupted={} gave `{}`, through a slice `{}`", step, interrupt, part, whole);
                    out = part;
                    break;
                }
            }
            out
        }
        "collect" => {
            let bits = parse_bits(a[0]);
            let v: T = match a.get(1).copied().unwrap_or("x") {
                "n" => hinted(bits, Hint::None).collect(),
                "l" => hinted(bits, Hint::Lower).collect(),
                "f" => hinted(bits, Hint::Upper).collect(),
                "r" => resuming(bits).collect(),
                _ => bits.iter().map(|b| bit_of(*b)).collect(),
            };
            ok1(v.dump())
        }
        _ => panic!("ctor op {op}"),
    }
}

// ---- single-subject operations --------------------------------------------------------------------
#[inline(never)]
fn unary<T: Sub>(op: &str, a: &[&str]) -> String
where
    for<'a> &'a T: IntoIterator<Item = Bit, IntoIter = bva::BitIterator<'a, T>>,
    T: Extend<Bit>,
{
    let mut v = T::parse(a[0]);
    match op {
        "get" => ok1(tok_bit(v.get(a[1].parse().unwrap())).into()),
        "set" => {
            v.set(a[1].parse().unwrap(), bit_of(a[2] == "1"));
            ok1(v.dump())
        }
        "push" => {
            let r = std::panic::catch_unwind(std::panic::AssertUnwindSafe(|| v.push(bit_of(a[1] == "1"))));
            if r.is_err() {
                // a panic must not leave an over-long vector behind
                if v.len() > v.capacity() {
                    return format!("ok {} B:0", v.dump());
                }
                return "panic".into();
            }
            ok1(v.dump())
        }
        "pop" => {
            let b = v.pop();
            format!("ok {} {}", v.dump(), tok_obit(b))
        }
        "resize" => {
            v.resize(a[1].parse().unwrap(), bit_of(a[2] == "1"));
            ok1(v.dump())
        }
        "truncate" => {
            v.truncate(a[1].parse().unwrap());
            ok1(v.dump())
        }
        "sign_extend" => {
            v.sign_extend(a[1].parse().unwrap());
            ok1(v.dump())
        }
        "extend" => {
            let bits = parse_bits(a[1]);
            let r = std::panic::catch_unwind(std::panic::AssertUnwindSafe(|| match a.get(2).copied().unwrap_or("x") {
                "n" => v.extend(hinted(bits, Hint::None)),
                "l" => v.extend(hinted(bits, Hint::Lower)),
                "f" => v.extend(hinted(bits, Hint::Upper)),
                "r" => v.extend(resuming(bits)),
                _ => v.extend(bits.iter().map(|b| bit_of(*b))),
            }));
            if r.is_err() {
                if v.len() > v.capacity() {
                    return format!("ok {} B:0", v.dump());
                }
                return "panic".into();
            }
            ok1(v.dump())
        }
        "copy_range" => {
            let before = v.dump();
            let r = v.copy_range(a[1].parse().unwrap()..a[2].parse().unwrap());
            assert_eq!(before, v.dump(), "copy_range modified its source");
            ok1(r.dump())
        }
        "split_off" => {
            let h = v.split_off(a[1].parse().unwrap());
            format!("ok {} {}", v.dump(), h.dump())
        }
        "split" => {
            let (x, y) = v.split(a[1].parse().unwrap());
            format!("ok {} {}", x.dump(), y.dump())
        }
        "first" => ok1(tok_obit(v.first()).into()),
        "last" => ok1(tok_obit(v.last()).into()),
        "shl_in" => {
            let b = v.shl_in(bit_of(a[1] == "1"));
            format!("ok {} {}", v.dump(), tok_bit(b))
        }
        "shr_in" => {
            let b = v.shr_in(bit_of(a[1] == "1"));
            format!("ok {} {}", v.dump(), tok_bit(b))
        }
        "rotl" => {
            v.rotl(a[1].parse().unwrap());
            ok1(v.dump())
        }
        "rotr" => {
            v.rotr(a[1].parse().unwrap());
            ok1(v.dump())
        }
        "capacity" => format!("ok n:{}", v.capacity()),
        "len" => format!("ok n:{} {}", v.len(), tok_bool(v.is_empty())),
        "counts" => format!(
            "ok n:{} n:{} n:{} n:{} n:{} {}",
            v.leading_zeros(),
            v.leading_ones(),
            v.trailing_zeros(),
            v.trailing_ones(),
            v.significant_bits(),
            tok_bool(v.is_zero())
        ),
        "to_vec" => {
            let e = endian(a[1]);
            let bytes = v.to_vec(e);
            let mut w: Vec<u8> = Vec::new();
            v.write(&mut w, e).unwrap();
            assert_eq!(bytes, w, "to_vec and write disagree");
            // a sink that accepts at most three bytes per call (what a pipe or socket may do) must still receive everything,
            // and a sink that is one byte too small must make `write` fail
            struct Short(Vec<u8>);
            impl std::io::Write for Short {
                fn write(&mut self, buf: &[u8]) -> std::io::Result<usize> {
                    let k = buf.len().min(3);
                    self.0.extend_from_slice(&buf[..k]);
                    Ok(k)
                }
                fn flush(&mut self) -> std::io::Result<()> { Ok(()) }
            }
            let mut sh = Short(Vec::new());
            let r = v.write(&mut sh, e);
            let short_ok = r.is_ok();
            let small_fails = if bytes.is_empty() { true } else {
                let mut buf = vec![0u8; bytes.len() - 1];
                let mut sl: &mut [u8] = &mut buf[..];
                v.write(&mut sl, e).is_err()
            };
            format!("ok {} {} {} {}", bytes_token(&bytes), bytes_token(&sh.0), tok_bool(short_ok), tok_bool(small_fails))
        }
        "hash" => {
            let mut h = RecHasher::default();
            v.hash(&mut h);
            let items: Vec<String> = h.0.iter().map(|(w, x)| format!("{}={:x}", w, x)).collect();
            format!("ok h:{}", if items.is_empty() { "-".to_string() } else { items.join(".") })
        }
        "fmt" | "fmtL" => {
            let s = match a[1] {
                "b" => format!("{:b}", v),
                "o" => format!("{:o}", v),
                "x" => format!("{:x}", v),
                "X" => format!("{:X}", v),
                _ => format!("{}", v),
            };
            ok1(chars_token(&s))
        }
        "iter" => {
            let before = v.dump();
            let out = run_iter(&v, a[1] == "1", a[2]);
            assert_eq!(before, v.dump(), "iteration modified the vector");
            out
        }
        _ => panic!("unary op {op}"),
    }
}

/// drive `iter()` / `iter().rev()` / `(&v).into_iter()` through a call list
fn run_iter<T: Sub>(v: &T, rev: bool, calls: &str) -> String
where
    for<'a> &'a T: IntoIterator<Item = Bit, IntoIter = bva::BitIterator<'a, T>>,
{
    /// `mode` selects how the consuming calls are made: 0 = the methods themselves (`count`, `last`, `size_hint`),
    /// 1 = through `fold`, 2 = through `for_each`, 3 = through `rev().rev()` (which routes `count`/`last` through `rfold`/`fold`).
    /// Returns the output and the number of bits left as seen by that mode's consumer.
    fn drive<I: DoubleEndedIterator<Item = Bit>>(mut it: I, calls: &str, mode: u8) -> (String, usize) {
        fn rest<I: DoubleEndedIterator<Item = Bit>>(it: I, mode: u8) -> (usize, Option<Bit>) {
            match mode {
                0 => { let n = it.size_hint().0; (n, it.last()) }
                1 => it.fold((0, None), |(n, _), b| (n + 1, Some(b))),
                2 => { let mut r = (0, None); it.for_each(|b| r = (r.0 + 1, Some(b))); r }
                _ => { let mut r = it.rev().rev(); let mut n = 0; let mut l = None; while let Some(b) = r.next() { n += 1; l = Some(b); } (n, l) }
            }
        }
        let mut out = String::from("ok");
        if calls == "-" {
            return (out, rest(it, mode).0);
        }
        let list: Vec<&str> = calls.split(',').collect();
        let mut i = 0;
        while i < list.len() {
            let c = list[i];
            i += 1;
            let t: String = if c == "next" {
                tok_obit(it.next()).into()
            } else if c == "back" {
                tok_obit(it.next_back()).into()
            } else if c == "hint" {
                let (lo, hi) = it.size_hint();
                assert_eq!(Some(lo), hi, "size_hint bounds differ");
                format!("n:{}", lo)
            } else if c == "count" {
                // consuming: must be last
                assert_eq!(i, list.len());
                let n = match mode { 0 => it.count(), 3 => it.rev().rev().count(), m => rest(it, m).0 };
                out.push(' ');
                out.push_str(&format!("n:{}", n));
                return (out, 0);
            } else if c == "last" {
                assert_eq!(i, list.len());
                let l = match mode { 0 => it.last(), 3 => it.rev().rev().last(), m => rest(it, m).1 };
                out.push(' ');
                out.push_str(tok_obit(l));
                return (out, 0);
            } else if let Some(n) = c.strip_prefix("nth:") {
                tok_obit(it.nth(n.parse().unwrap())).into()
            } else if let Some(n) = c.strip_prefix("nthb:") {
                tok_obit(it.nth_back(n.parse().unwrap())).into()
            } else {
                panic!("iter call {c}")
            };
            out.push(' ');
            out.push_str(&t);
        }
        let left = rest(it, mode).0;
        (out, left)
    }
    // `iter()` and `IntoIterator for &T` must be the same thing: alternate between them
    let go = |mode: u8| -> (String, usize) {
        if rev {
            drive(v.iter().rev(), calls, mode)
        } else if calls.len() % 2 == 0 {
            drive(v.iter(), calls, mode)
        } else {
            drive(v.into_iter(), calls, mode)
        }
    };
    let base = go(0);
    for mode in 1..=3u8 {
        let other = go(mode);
        if other != base {
            // the consumers built on `fold` / `for_each` / `rev().rev()` disagree with the methods themselves: report what they saw
            return format!("{} n:{}", other.0, other.1);
        }
    }
    base.0
}

// ---- operations with a generic `B: BitVector` argument ----------------------------------------------
#[inline(never)]
fn with_arg<T: Sub, B: Sub>(op: &str, a: &[&str]) -> String
where
    T: for<'a> TryFrom<&'a B>,
    for<'a> <T as TryFrom<&'a B>>::Error: std::fmt::Debug,
{
    match op {
        "append" | "prepend" | "insert" => {
            let mut v = T::parse(a[0]);
            let (x, idx) = if op == "insert" { (B::parse(a[2]), a[1].parse::<usize>().unwrap()) } else { (B::parse(a[1]), 0) };
            let xb = x.dump();
            let r = std::panic::catch_unwind(std::panic::AssertUnwindSafe(|| match op {
                "append" => v.append(&x),
                "prepend" => v.prepend(&x),
                _ => v.insert(idx, &x),
            }));
            assert_eq!(xb, x.dump(), "argument modified");
            if r.is_err() {
                if v.len() > v.capacity() {
                    return format!("ok {} B:0", v.dump());
                }
                return "panic".into();
            }
            ok1(v.dump())
        }
        "divrem" => {
            let v = T::parse(a[0]);
            let x = B::parse(a[1]);
            let (vb, xb) = (v.dump(), x.dump());
            let (q, r) = v.div_rem::<B>(&x);
            assert_eq!(vb, v.dump(), "dividend modified");
            assert_eq!(xb, x.dump(), "divisor modified");
            format!("ok {} {}", q.dump(), r.dump())
        }
        "convert" => {
            // a[0] = target type tag (already dispatched), a[1] = source
            let x = B::parse(a[1]);
            let xb = x.dump();
            let r = T::try_from(&x);
            assert_eq!(xb, x.dump(), "conversion source modified");
            match r {
                Ok(v) => ok1(v.dump()),
                Err(e) => format!("err {:?}", e),
            }
        }
        _ => panic!("with_arg op {op}"),
    }
}

// ---- by-value conversions (separately written bodies: `From<Bvd> for Bv`, `From<Bv> for Bvd`, `From<Bvf> for …`, `TryFrom<Bvd|Bv> for Bvf`) ----
#[inline(never)]
fn convv_src<S: Sub>(ttag: &str, a: &[&str]) -> String
where
    Bv: From<S>,
    Bvd: From<S>,
{
    let x = S::parse(a[1]);
    match ttag {
        "A" => ok1(Bv::from(x).dump()),
        "D" => ok1(Bvd::from(x).dump()),
        t => panic!("convertv target {t}"),
    }
}
#[inline(never)]
fn convv_tgt<T: Sub>(stag: &str, a: &[&str]) -> String
where
    T: TryFrom<Bvd> + TryFrom<Bv>,
    <T as TryFrom<Bvd>>::Error: std::fmt::Debug,
    <T as TryFrom<Bv>>::Error: std::fmt::Debug,
{
    match stag {
        "D" => match T::try_from(Bvd::parse(a[1])) {
            Ok(v) => ok1(v.dump()),
            Err(e) => format!("err {:?}", e),
        },
        "A" => match T::try_from(Bv::parse(a[1])) {
            Ok(v) => ok1(v.dump()),
            Err(e) => format!("err {:?}", e),
        },
        t => panic!("convertv source {t}"),
    }
}

/// C10 on pairs of one type: `a == b`, `b == a`, and whether both feed the same data to a Hasher
#[inline(never)]
fn eqhash<T: Sub + PartialEq + Hash>(a: &[&str]) -> String {
    let (x, y) = (T::parse(a[0]), T::parse(a[1]));
    let (mut hx, mut hy) = (RecHasher::default(), RecHasher::default());
    x.hash(&mut hx);
    y.hash(&mut hy);
    // third value: the property itself on this pair — equal values hashed identically
    format!("ok {} {} {}", tok_bool(x == y), tok_bool(y == x), tok_bool(!(x == y || y == x) || hx.0 == hy.0))
}

#[inline(never)]
fn cmpall<L: Sub, R: Sub>(a: &[&str]) -> String
where
    L: PartialEq<R> + PartialOrd<R>,
{
    let l = L::parse(a[0]);
    let r = R::parse(a[1]);
    let pc = l.partial_cmp(&r);
    format!(
        "ok {} {} {} {} {} {} {}",
        tok_bool(l == r),
        tok_bool(l != r),
        tok_bool(l < r),
        tok_bool(l <= r),
        tok_bool(l > r),
        tok_bool(l >= r),
        match pc {
            Some(o) => tok_ord(o),
            None => "o:none",
        }
    )
}

// ---- integers ---------------------------------------------------------------------------------------
macro_rules! uint_ops {
    ($T:ty, $op:expr, $a:expr) => {{
        let a: &[&str] = $a;
        match $op {
            "from_uint" => {
                let (w, x) = parse_uint(a[1]);
                macro_rules! one { ($u:ty) => {{
                    let byval = <$T>::try_from(x as $u).map(|v| v.dump()).map_err(|e| format!("{:?}", e));
                    let byref = <$T>::try_from(&(x as $u)).map(|v| v.dump()).map_err(|e| format!("{:?}", e));
                    assert_eq!(byval, byref, "by-value and by-reference integer conversion differ");
                    match byval { Ok(s) => format!("ok {}", s), Err(e) => format!("err {}", e) }
                }}}
                match w { 8 => one!(u8), 16 => one!(u16), 32 => one!(u32), 64 => one!(u64), 128 => one!(u128), 65 => one!(usize), _ => panic!("width") }
            }
            "to_uint" => {
                let v = <$T>::parse(a[0]);
                let w: usize = if a[1] == "us" { 65 } else { a[1].parse().unwrap() };
                macro_rules! one { ($u:ty) => {{
                    let byref = <$u>::try_from(&v).map(|x| x as u128).map_err(|e| format!("{:?}", e));
                    let byval = <$u>::try_from(v.clone()).map(|x| x as u128).map_err(|e| format!("{:?}", e));
                    assert_eq!(byval, byref, "by-value and by-reference conversion to integer differ");
                    match byref { Ok(x) => format!("ok n:{}", x), Err(e) => format!("err {}", e) }
                }}}
                match w { 8 => one!(u8), 16 => one!(u16), 32 => one!(u32), 64 => one!(u64), 128 => one!(u128), 65 => one!(usize), _ => panic!("width") }
            }
            "from_slice" => {
                let w: usize = a[1].parse().unwrap();
                let xs = parse_hex_list(a[2].strip_prefix("b:").unwrap());
                macro_rules! one { ($u:ty) => {{
                    let s: Vec<$u> = xs.iter().map(|x| *x as $u).collect();
                    let base = match <$T>::try_from(&s[..]) { Ok(v) => format!("ok {}", v.dump()), Err(e) => format!("err {:?}", e) };
                    // the same elements at every other alignment of the slice's start address (1..=7 elements into a buffer)
                    for off in 1..=7usize {
                        let mut buf: Vec<$u> = vec![0x5a as $u; off];
                        buf.extend_from_slice(&s);
                        let r = match <$T>::try_from(&buf[off..]) { Ok(v) => format!("ok {}", v.dump()), Err(e) => format!("err {:?}", e) };
                        if r != base {
                            return r;
                        }
                    }
                    base
                }}}
                match w { 8 => one!(u8), 16 => one!(u16), 32 => one!(u32), 64 => one!(u64), 128 => one!(u128), _ => panic!("width") }
            }
            _ => panic!("uint op"),
        }
    }};
}
macro_rules! uint_dispatch {
    ($tag:expr, $op:expr, $a:expr ; $($name:literal : $ty:ty),*) => {
        match $tag { $( $name => uint_ops!($ty, $op, $a), )* t => panic!("unknown type tag {}", t) }
    };
}
#[inline(never)]
fn uint_family(tag: &str, op: &str, a: &[&str]) -> String {
    for_types!(uint_dispatch!(tag, op, a))
}

// ---- capacity (inherent methods of Bvd / Bv only) -----------------------------------------------------
fn capacity_ops(op: &str, a: &[&str]) -> String {
    let tag = ty_tag(a[0]);
    macro_rules! go { ($T:ty) => {{
        let mut v = <$T>::parse(a[0]);
        match op {
            "reserve" => v.reserve(a[1].parse().unwrap()),
            _ => v.shrink_to_fit(),
        }
        format!("ok {} n:{}", v.dump(), v.capacity())
    }}}
    match tag {
        "D" => go!(Bvd),
        "A" => go!(Bv),
        _ => {
            // fixed types have neither method: the value is returned untouched
            fn id<T: Sub>(t: &str) -> String {
                let v = T::parse(t);
                format!("ok {} n:{}", v.dump(), v.capacity())
            }
            for_types!(d1!(tag, id, (a[0])))
        }
    }
}

fn with_arg_l1<T: Sub>(rtag: &str, op: &str, a: &[&str]) -> String
where
    T: for<'a> TryFrom<&'a Bvd> + for<'a> TryFrom<&'a Bv>,
    T: for<'a> TryFrom<&'a Bvf<u8, 1>> + for<'a> TryFrom<&'a Bvf<u8, 3>> + for<'a> TryFrom<&'a Bvf<u16, 2>>,
    T: for<'a> TryFrom<&'a Bvf<u8, 17>> + for<'a> TryFrom<&'a Bvf<u16, 5>>,
    for<'a> <T as TryFrom<&'a Bvf<u8, 17>>>::Error: std::fmt::Debug,
    for<'a> <T as TryFrom<&'a Bvf<u16, 5>>>::Error: std::fmt::Debug,
    T: for<'a> TryFrom<&'a Bvf<u32, 1>> + for<'a> TryFrom<&'a Bvf<u32, 3>> + for<'a> TryFrom<&'a Bvf<u64, 1>>,
    T: for<'a> TryFrom<&'a Bvf<u64, 2>> + for<'a> TryFrom<&'a Bvf<u64, 5>> + for<'a> TryFrom<&'a Bvf<u128, 1>>,
    T: for<'a> TryFrom<&'a Bvf<u128, 3>> + for<'a> TryFrom<&'a Bvf<usize, 5>>,
    for<'a> <T as TryFrom<&'a Bvd>>::Error: std::fmt::Debug,
    for<'a> <T as TryFrom<&'a Bv>>::Error: std::fmt::Debug,
    for<'a> <T as TryFrom<&'a Bvf<u8, 1>>>::Error: std::fmt::Debug,
    for<'a> <T as TryFrom<&'a Bvf<u8, 3>>>::Error: std::fmt::Debug,
    for<'a> <T as TryFrom<&'a Bvf<u16, 2>>>::Error: std::fmt::Debug,
    for<'a> <T as TryFrom<&'a Bvf<u32, 1>>>::Error: std::fmt::Debug,
    for<'a> <T as TryFrom<&'a Bvf<u32, 3>>>::Error: std::fmt::Debug,
    for<'a> <T as TryFrom<&'a Bvf<u64, 1>>>::Error: std::fmt::Debug,
    for<'a> <T as TryFrom<&'a Bvf<u64, 2>>>::Error: std::fmt::Debug,
    for<'a> <T as TryFrom<&'a Bvf<u64, 5>>>::Error: std::fmt::Debug,
    for<'a> <T as TryFrom<&'a Bvf<u128, 1>>>::Error: std::fmt::Debug,
    for<'a> <T as TryFrom<&'a Bvf<u128, 3>>>::Error: std::fmt::Debug,
    for<'a> <T as TryFrom<&'a Bvf<usize, 5>>>::Error: std::fmt::Debug,
{
    for_types!(d2!(rtag, with_arg, T, (op, a)))
}

fn cmp_l1<L: Sub>(rtag: &str, a: &[&str]) -> String
where
    L: PartialEq<Bvd> + PartialOrd<Bvd> + PartialEq<Bv> + PartialOrd<Bv>,
    L: PartialEq<Bvf<u8, 1>> + PartialOrd<Bvf<u8, 1>> + PartialEq<Bvf<u8, 3>> + PartialOrd<Bvf<u8, 3>>,
    L: PartialEq<Bvf<u8, 17>> + PartialOrd<Bvf<u8, 17>> + PartialEq<Bvf<u16, 5>> + PartialOrd<Bvf<u16, 5>>,
    L: PartialEq<Bvf<u16, 2>> + PartialOrd<Bvf<u16, 2>> + PartialEq<Bvf<u32, 1>> + PartialOrd<Bvf<u32, 1>>,
    L: PartialEq<Bvf<u32, 3>> + PartialOrd<Bvf<u32, 3>> + PartialEq<Bvf<u64, 1>> + PartialOrd<Bvf<u64, 1>>,
    L: PartialEq<Bvf<u64, 2>> + PartialOrd<Bvf<u64, 2>> + PartialEq<Bvf<u64, 5>> + PartialOrd<Bvf<u64, 5>>,
    L: PartialEq<Bvf<u128, 1>> + PartialOrd<Bvf<u128, 1>> + PartialEq<Bvf<u128, 3>> + PartialOrd<Bvf<u128, 3>>,
    L: PartialEq<Bvf<usize, 5>> + PartialOrd<Bvf<usize, 5>>,
{
    for_types!(d2!(rtag, cmpall, L, (a)))
}

#[path = "../ops_exec.rs"]
mod ops_exec;
#[path = "../gen_ops.rs"]
mod gen_ops;

/// `Bit` <-> bool / integer conversions (src/bit.rs)
fn bitconv(a: &[&str]) -> String {
    let (w, x) = parse_uint(a[0]);
    macro_rules! one { ($u:ty) => {{
        let b: Bit = Bit::from(x as $u);
        let back: $u = <$u>::from(b);
        let as_bool: bool = bool::from(b);
        let from_bool: Bit = Bit::from(as_bool);
        format!("ok {} n:{} {} {} {}", tok_bit(b), back as u128, tok_bool(as_bool), tok_bit(from_bool), chars_token(&format!("{}", b)))
    }}}
    match w { 8 => one!(u8), 16 => one!(u16), 32 => one!(u32), 64 => one!(u64), 128 => one!(u128), 65 => one!(usize), _ => panic!("width") }
}

fn exec(t: &[&str]) -> String {
    let op = t[0];
    let a = &t[2..];
    match op {
        "bitconv" => bitconv(a),
        "errdisplay" => {
            let e = if a[0] == "cap" { bva::ConvertionError::NotEnoughCapacity } else { bva::ConvertionError::InvalidFormat(a[1].parse().unwrap()) };
            format!("ok {} {}", chars_token(&format!("{}", e)), chars_token(&format!("{:?}", e)))
        }
        "fmtspec" => for_types!(d1!(ty_tag(a[0]), fmtspec, (a))),
        "add" | "sub" | "mul" | "div" | "rem" | "and" | "or" | "xor" | "shl" | "shr" | "not" => ops_exec::exec(t),
        "zeros" | "ones" | "repeat" | "with_capacity" | "from_binary" | "from_hex" | "from_bytes" | "read" | "collect" => {
            for_types!(d1!(a[0], ctor, (op, &a[1..])))
        }
        "from_uint" | "from_slice" => uint_family(a[0], op, a),
        "to_uint" => uint_family(ty_tag(a[0]), op, a),
        "reserve" | "shrink" => capacity_ops(op, a),
        "append" | "prepend" | "divrem" => {
            let (lt, rt) = (ty_tag(a[0]), ty_tag(a[1]));
            for_types!(d1!(lt, with_arg_l1, (rt, op, a)))
        }
        "insert" => {
            let (lt, rt) = (ty_tag(a[0]), ty_tag(a[2]));
            for_types!(d1!(lt, with_arg_l1, (rt, op, a)))
        }
        "convert" => {
            let rt = ty_tag(a[1]);
            for_types!(d1!(a[0], with_arg_l1, (rt, op, a)))
        }
        "convertv" => {
            let st = ty_tag(a[1]);
            if a[0] == "A" || a[0] == "D" {
                for_types!(d1!(st, convv_src, (a[0], a)))
            } else {
                for_types!(d1!(a[0], convv_tgt, (st, a)))
            }
        }
        "eqhash" => for_types!(d1!(ty_tag(a[0]), eqhash, (a))),
        "hugecounts" => {
            // a heap vector longer than 2^32 bits with a few set bits: the counts, and hash / equality against the short equal value
            let n: usize = a[0].parse().unwrap();
            let pos: Vec<usize> = if a[1] == "-" { vec![] } else { a[1].split(',').map(|x| x.parse().unwrap()).collect() };
            let mut v = Bvd::zeros(n);
            for p in &pos { v.set(*p, Bit::One); }
            let top = pos.iter().max().map_or(0, |m| m + 1);
            let mut short = Bvd::zeros(top);
            for p in &pos { short.set(*p, Bit::One); }
            // the recording hasher keeps every word: only hash when the value is short
            let same_hash = if top <= 1 << 20 {
                let (mut h1, mut h2) = (RecHasher::default(), RecHasher::default());
                v.hash(&mut h1);
                short.hash(&mut h2);
                h1.0 == h2.0
            } else { true };
            format!("ok n:{} n:{} n:{} {} {} {}", v.leading_zeros(), v.trailing_zeros(), v.significant_bits(), tok_bool(v.is_zero()), tok_bool(v == short), tok_bool(same_hash))
        }
        "cmpall" => {
            let (lt, rt) = (ty_tag(a[0]), ty_tag(a[1]));
            for_types!(d1!(lt, cmp_l1, (rt, a)))
        }
        _ => for_types!(d1!(ty_tag(a[0]), unary, (op, a))),
    }
}

#[path = "../gen_core.rs"]
pub mod gen;

fn main() {
    harness_main(gen::generate, exec);
}
