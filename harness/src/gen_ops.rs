//! Case generators for the operator families.
use bva_harness::*;

const MAXD: usize = 330;

fn scale(tier: &str, quick: usize) -> usize {
    if tier == "thorough" { quick * 20 } else if tier == "amp" { quick * 10 } else { quick }
}
fn line(op: &str, args: &[&str]) -> String {
    let mut s = format!("{} {}", op, DBG);
    for a in args {
        s.push(' ');
        s.push_str(a);
    }
    s
}
fn out_vec(out: &str) -> Option<String> {
    let mut it = out.split(' ');
    if it.next()? != "ok" {
        return None;
    }
    it.next().map(|s| s.to_string())
}
fn all_small(ty: &Ty, maxlen: usize) -> Vec<String> {
    let mut v = vec![];
    for len in 0..=maxlen.min(ty.cap().unwrap_or(usize::MAX)) {
        for x in 0..(1u32 << len) {
            let bits: Vec<bool> = (0..len).map(|i| (x >> i) & 1 == 1).collect();
            v.push(vec_token(ty, &bits, (x as usize) % 2, x % 3 == 0));
        }
    }
    v
}
fn small_types() -> Vec<Ty> {
    vec![ty_of("F8x1"), ty_of("F8x3"), ty_of("D"), ty_of("A")]
}
/// operand pair: lengths related in the interesting ways (equal, shorter, longer, other word count)
fn gen_pair(rng: &mut Rng, lt: &Ty, rt: &Ty, maxlen: usize) -> (String, String) {
    let ll = gen_len(rng, lt, maxlen).min(maxlen);
    let rl = match rng.below(6) {
        0 => ll,
        1 => ll + 1,
        2 => ll.saturating_sub(1),
        3 => ll + lt.w,
        _ => gen_len(rng, rt, maxlen),
    }
    .min(rt.cap().unwrap_or(maxlen))
    .min(maxlen);
    (gen_vec_len(rng, lt, ll), gen_vec_len(rng, rt, rl))
}
/// like `gen_pair`, but one or both operands come out of a short history on the real implementation
fn gen_pair_hist(rng: &mut Rng, lt: &Ty, rt: &Ty, maxlen: usize, emit: Emit) -> (String, String) {
    let l = super::gen::produced(rng, lt, maxlen, emit);
    let r = if rng.chance(1, 2) { super::gen::produced(rng, rt, maxlen, emit) } else { gen_vec(rng, rt, maxlen) };
    (l, r)
}
fn small_exhaustive(ops: &[&str], maxlen: usize, emit: Emit, nonzero_rhs_only: bool) {
    for lt in small_types() {
        let ls = all_small(&lt, maxlen);
        for rt in small_types() {
            let rs = all_small(&rt, maxlen);
            for l in &ls {
                for r in &rs {
                    let _ = nonzero_rhs_only;
                    for op in ops {
                        emit(line(op, &[l, r, "ar"]));
                    }
                }
            }
        }
    }
}

/// values at the maxima of the native integer widths (2^8-1 … 2^128-1, and their neighbours) held in vectors of any length,
/// against operands slightly larger or smaller — where a fast path through native arithmetic changes behaviour
fn native_maxima(rng: &mut Rng, tier: &str, emit: Emit, ops: &[&str]) {
    for lt in TYPES {
        let cap = lt.cap().unwrap_or(330).min(330);
        for &wbits in &[8usize, 16, 32, 64, 128] {
            if wbits > cap { continue; }
            for variant in 0..(3 * scale(tier, 1)) {
                let len = if rng.chance(1, 2) { wbits } else { wbits + rng.below(cap - wbits + 1) };
                let mut a: Vec<bool> = (0..len).map(|i| i < wbits).collect();           // 2^w - 1
                match variant % 3 { 1 => { a[0] = false; } 2 if len > wbits => { a[wbits] = true; for i in 0..wbits { a[i] = false; } } _ => {} }   // 2^w - 2, 2^w
                let l = vec_token(lt, &a, rng.below(2), rng.chance(1, 3));
                for rt in [*rng.pick(TYPES), ty_of("D"), ty_of("F64x5")] {
                    let rcap = rt.cap().unwrap_or(330).min(330);
                    // an operand with more significant bits than the native width, one with exactly as many, a small one
                    let mut cands: Vec<Vec<bool>> = vec![];
                    if rcap > wbits { let n = (wbits + 1 + rng.below(70)).min(rcap); let mut x = gen_bits(rng, n); x[n - 1] = true; cands.push(x); }
                    if rcap >= wbits { cands.push(vec![true; wbits]); }
                    cands.push(vec![true, true]);
                    for x in cands {
                        let r = vec_token(&rt, &x, rng.below(2), rng.chance(1, 3));
                        for op in ops {
                            for f in FORMS {
                                emit(line(op, &[&l, &r, f]));
                            }
                            emit(line(op, &[&r, &l, "ar"]));
                        }
                    }
                }
            }
        }
    }
}

fn gen_binary(rng: &mut Rng, tier: &str, emit: Emit, ops: &[&str], maxlen: usize, per_pair: usize) {
    native_maxima(rng, tier, emit, ops);
    small_exhaustive(ops, if tier == "thorough" { 4 } else { 3 }, emit, false);
    for lt in TYPES {
        for rt in TYPES {
            for k in 0..scale(tier, per_pair) {
                let (l, r) = if k % 4 == 3 { gen_pair_hist(rng, lt, rt, maxlen.min(200), emit) } else { gen_pair(rng, lt, rt, maxlen) };
                for op in ops {
                    emit(line(op, &[&l, &r, "ar"]));
                }
            }
        }
        for _ in 0..scale(tier, per_pair * 6) {
            let l = gen_vec(rng, lt, maxlen);
            let r = gen_uint(rng);
            for op in ops {
                emit(line(op, &[&l, &r, "ar"]));
            }
        }
    }
}


// ---- small big-number helpers on little-endian bit vectors (only for building interesting operands) -------------
fn bits_add(a: &[bool], b: &[bool], len: usize) -> Vec<bool> {
    let mut out = vec![false; len];
    let mut c = false;
    for i in 0..len {
        let x = *a.get(i).unwrap_or(&false);
        let y = *b.get(i).unwrap_or(&false);
        out[i] = x ^ y ^ c;
        c = (x & y) | (x & c) | (y & c);
    }
    out
}
fn bits_mul(a: &[bool], b: &[bool], len: usize) -> Vec<bool> {
    let mut acc = vec![false; len];
    for (i, bi) in b.iter().enumerate() {
        if *bi && i < len {
            let mut sh = vec![false; i];
            sh.extend_from_slice(a);
            acc = bits_add(&acc, &sh, len);
        }
    }
    acc
}
fn run(len: usize, lo: usize, hi: usize) -> Vec<bool> {
    (0..len).map(|i| i >= lo && i < hi).collect()
}
fn single(len: usize, k: usize) -> Vec<bool> {
    (0..len).map(|i| i == k).collect()
}

/// carries and borrows that ripple through a chosen number of full words and stop at a chosen place
fn carry_lattice(rng: &mut Rng, tier: &str, emit: Emit) {
    for lt in TYPES {
        let w = lt.w;
        let maxlen = lt.cap().unwrap_or(5 * w).min(330);
        let mut lens = vec![maxlen, maxlen.saturating_sub(1), (2 * w + 3).min(maxlen), (3 * w).min(maxlen), (3 * w + 1).min(maxlen)];
        lens.dedup();
        for &n in &lens {
            if n == 0 { continue; }
            let marks: Vec<usize> = {
                let mut m = vec![0usize, 1];
                for k in 1..=(n / w + 1) { m.extend([k * w - 1, k * w, k * w + 1]); }
                m.push(n - 1); m.push(n);
                m.retain(|x| *x <= n); m.sort(); m.dedup(); m
            };
            let reps = if tier == "quick" { 10 } else { 60 };
            for _ in 0..reps {
                let lo = *rng.pick(&marks);
                let hi = *rng.pick(&marks);
                let (lo, hi) = (lo.min(hi), lo.max(hi));
                // a = ones on [lo,hi), plus optional noise above; b = 1 << lo (carry ripples exactly to hi), or a's complement, or ones
                let mut a = run(n, lo, hi);
                if rng.chance(1, 3) { for i in (hi + 1).min(n)..n { a[i] = rng.chance(1, 2); } }
                let bsel = rng.below(5);
                let b: Vec<bool> = match bsel {
                    0 => single(n.max(lo + 1), lo),
                    1 => a.iter().map(|x| !x).collect(),
                    2 => run(n, 0, n),
                    3 => run(n + rng.below(70), lo, hi + rng.below(3)),
                    _ => single(n + 1, hi.min(n)),
                };
                let rt = *rng.pick(TYPES);
                let mut b = b; b.truncate(rt.cap().unwrap_or(400));
                let l = vec_token(lt, &a, rng.below(3), rng.chance(1, 3));
                let r = vec_token(&rt, &b, rng.below(3), rng.chance(1, 3));
                for op in ["add", "sub", "mul"] {
                    emit(line(op, &[&l, &r, "ar"]));
                    emit(line(op, &[&r, &l, "ar"]));
                }
            }
        }
    }
}

/// dividends built as q*b + r with chosen shapes of q, b, r (exact multiples, power-of-two divisors, all-ones quotients,
/// remainder b-1, divisor one bit longer / shorter than the dividend)
fn div_lattice(rng: &mut Rng, tier: &str, emit: Emit) {
    let reps = if tier == "quick" { 6 } else { 60 };
    for lt in TYPES {
        let n = lt.cap().unwrap_or(200).min(200);
        for rt in TYPES {
            for _ in 0..reps {
                let bl = 1 + rng.below(n.min(rt.cap().unwrap_or(200)).max(1));
                let ql = n.saturating_sub(bl).max(1).min(n);
                let b: Vec<bool> = match rng.below(5) {
                    0 => single(bl, bl - 1),
                    1 => run(bl, 0, bl),
                    2 => { let mut x = single(bl, bl - 1); x[0] = true; x }
                    _ => { let mut x = gen_bits(rng, bl); x[bl - 1] = true; x }
                };
                let q: Vec<bool> = match rng.below(5) {
                    0 => run(ql, 0, ql),
                    1 => single(ql, ql - 1),
                    2 => single(ql, rng.below(ql)),
                    3 => { let mut x = run(ql, 0, ql); let k = rng.below(ql); x[k] = false; x }
                    _ => gen_bits(rng, ql),
                };
                let r: Vec<bool> = match rng.below(4) {
                    0 => vec![],
                    1 => { // b - 1
                        let ones = run(bl, 0, bl);
                        bits_add(&b, &ones, bl)
                    }
                    2 => single(bl, 0),
                    _ => { let mut x = gen_bits(rng, bl); x[bl - 1] = false; x }
                };
                let a = bits_add(&bits_mul(&q, &b, n), &r, n);
                let mut bb = b.clone();
                // the divisor may be much longer than its value
                bb.resize((bl + rng.below(3) * 40).min(rt.cap().unwrap_or(300)), false);
                let l = vec_token(lt, &a, rng.below(2), rng.chance(1, 3));
                let rv = vec_token(rt, &bb, rng.below(2), rng.chance(1, 3));
                emit(line("div", &[&l, &rv, "rr"]));
                emit(line("rem", &[&l, &rv, "rr"]));
            }
        }
    }
}


/// words assembled from boundary half-words: exercises the widening multiply (`u128::wmul` is a separate half-word
/// algorithm with three intermediate carries) and the high halves of products for every word type
fn half_word_lattice(tier: &str, emit: Emit) {
    let hv = |h: usize| -> Vec<u128> {
        let m: u128 = if h == 64 { u64::MAX as u128 } else { (1u128 << h) - 1 };
        let mut v = vec![0u128, 1, 2, 3, m, m - 1, m - 2, 1u128 << (h - 1), (1u128 << (h - 1)) - 1, (1u128 << (h - 1)) + 1];
        if tier == "thorough" { v.extend([m >> 1, m ^ (m >> 1), 5, 0x5555_5555_5555_5555_5555_5555_5555_5555u128 & m, 0xAAAA_AAAA_AAAA_AAAA_AAAA_AAAA_AAAA_AAAAu128 & m]); }
        v
    };
    for (tag, w) in [("F128x3", 128usize), ("F64x5", 64), ("F32x3", 32), ("F16x2", 16), ("F8x3", 8)] {
        let ty = ty_of(tag);
        let h = w / 2;
        let vals = hv(h);
        let n = ty.cap().unwrap();
        let idx: Vec<usize> = if w == 128 || tier == "thorough" { (0..vals.len()).collect() } else { vec![0, 1, 3, 4, 5, 7] };
        for &a in &idx { for &b in &idx { for &c in &idx { for &d in &idx {
            let x: u128 = vals[a] | (vals[b] << h);
            let y: u128 = vals[c] | (vals[d] << h);
            // word 0 = x, remaining words all ones (so that the high half of every product matters)
            let mk = |lo: u128| -> Vec<bool> { (0..n).map(|i| if i < w { (lo >> i) & 1 == 1 } else { true }).collect() };
            let l = vec_token(&ty, &mk(x), 0, false);
            let r = vec_token(&ty, &mk(y), 0, false);
            emit(line("mul", &[&l, &r, "ar"]));
        }}}}
    }
}

/// word-level generate / propagate / kill lattice with arbitrary word values: for every word position the pair of operand words
/// is chosen to *generate* a carry (borrow), to *propagate* an incoming one (`b = !a` for addition, `b = a` for subtraction — the
/// case a comparison-based borrow detection gets wrong), or to *kill* it. The same pairs are also divided (a shared middle word
/// under a borrow is what `rem -= divisor` meets).
fn gpk_lattice(rng: &mut Rng, tier: &str, emit: Emit, ops: &[&str]) {
    for lt in TYPES {
        let w = lt.w;
        let nw = match lt.cap() { Some(c) => c / w, None => 2 + rng.below(4) };
        if nw < 2 { continue; }
        let wmask: u128 = if w == 128 { u128::MAX } else { (1u128 << w) - 1 };
        for _ in 0..scale(tier, 40) {
            let sub = rng.chance(1, 2);
            let (mut aw, mut bw) = (vec![0u128; nw], vec![0u128; nw]);
            for i in 0..nw {
                let x = ((rng.next() as u128) << 64 | rng.next() as u128) & wmask;
                let cls = if i == 0 { 0 } else { rng.below(4) };
                let (a, b) = match (cls, sub) {
                    (0, false) => (x | (1 << (w - 1)), ((!x) & wmask).wrapping_add(1 + rng.below(3) as u128) & wmask | (1 << (w - 1))),   // generate
                    (0, true) => (x & (wmask >> 1), x | (1 << (w - 1))),                                                       // borrow out
                    (1, false) | (2, false) => (x, (!x) & wmask),                                                                   // propagate (add)
                    (1, true) | (2, true) => (x, x),                                                                               // propagate (sub)
                    (_, false) => (x >> 2, x >> 3),
                    (_, true) => (x | (1 << (w - 1)), x & (wmask >> 2)),
                };
                aw[i] = a; bw[i] = b;
            }
            if sub && rng.chance(2, 3) { let t = nw - 1; aw[t] = bw[t].wrapping_add(1 + rng.below(4) as u128) & wmask; }   // a > b overall: the subtraction happens in div_rem
            let bits = |ws: &Vec<u128>| -> Vec<bool> { (0..nw * w).map(|i| (ws[i / w] >> (i % w)) & 1 == 1).collect() };
            let l = vec_token(lt, &bits(&aw), rng.below(2), rng.chance(1, 3));
            let rt = if rng.chance(2, 3) { *lt } else { *rng.pick(TYPES) };
            let mut rb = bits(&bw);
            rb.truncate(rt.cap().unwrap_or(usize::MAX));
            let r = vec_token(&rt, &rb, rng.below(2), rng.chance(1, 3));
            for op in ops {
                emit(line(op, &[&l, &r, "ar"]));
            }
        }
    }
}

fn gen_c01(rng: &mut Rng, tier: &str, emit: Emit) {
    carry_lattice(rng, tier, emit);
    gpk_lattice(rng, tier, emit, &["add", "sub"]);
    half_word_lattice(tier, emit);
    gen_binary(rng, tier, emit, &["add", "sub", "mul"], MAXD, 12);
    // carry / borrow ripple through all-ones and all-zero words; u128 half-word lattice for wmul
    let pats: [u128; 9] = [0, 1, 2, u64::MAX as u128, (u64::MAX as u128) + 1, u128::MAX, u128::MAX - 1, 1u128 << 127, (1u128 << 64) - 2];
    for lt in TYPES {
        let n = match lt.cap() { Some(c) => c, None => 256 };
        for &p in &pats {
            for &q in &pats {
                let mk = |x: u128, len: usize| -> Vec<bool> { (0..len).map(|i| (x >> (i % 128)) & 1 == 1).collect() };
                let l = vec_token(lt, &mk(p, n), 0, false);
                let r = vec_token(lt, &mk(q, n), 1, true);
                for op in ["add", "sub", "mul"] {
                    emit(line(op, &[&l, &r, "ar"]));
                }
            }
        }
    }
}


/// dividend / divisor words drawn independently from a boundary set (the classic add-back and qhat-overflow cases of
/// multi-word long division are of this shape), as whole 64-bit words
fn div_word_lattice(rng: &mut Rng, tier: &str, emit: Emit) {
    let ws: [u64; 10] = [0, 1, 2, 3, 1 << 63, (1 << 63) - 1, u64::MAX, u64::MAX - 1, 1 << 61, 0x8000_0000_0000_0001];
    let reps = if tier == "quick" { 1500 } else { 40000 };
    let tys = [ty_of("D"), ty_of("A"), ty_of("F64x5"), ty_of("F128x3"), ty_of("F32x3")];
    for _ in 0..reps {
        let lt = *rng.pick(&tys);
        let rt = *rng.pick(&tys);
        let ln = match lt.cap() { Some(c) => c / 64, None => 2 + rng.below(4) }.max(1);
        let rn = match rt.cap() { Some(c) => c / 64, None => 1 + rng.below(4) }.max(1);
        let mk = |rng: &mut Rng, n: usize| -> Vec<bool> {
            let mut v = Vec::with_capacity(n * 64);
            for _ in 0..n { let x = if rng.chance(1, 6) { rng.next() } else { *rng.pick(&ws) }; for i in 0..64 { v.push((x >> i) & 1 == 1); } }
            v
        };
        let a = mk(rng, ln);
        let mut b = mk(rng, rn.min(ln + 1));
        if b.iter().all(|x| !x) { b[0] = true; }
        let l = vec_token(&lt, &a[..a.len().min(lt.cap().unwrap_or(usize::MAX))], rng.below(2), false);
        let r = vec_token(&rt, &b[..b.len().min(rt.cap().unwrap_or(usize::MAX))], rng.below(2), false);
        emit(line(if rng.chance(1, 2) { "div" } else { "rem" }, &[&l, &r, "rr"]));
    }
}

fn gen_c02(rng: &mut Rng, tier: &str, emit: Emit) {
    div_lattice(rng, tier, emit);
    div_word_lattice(rng, tier, emit);
    gpk_lattice(rng, tier, emit, &["div", "rem"]);
    gen_binary(rng, tier, emit, &["div", "rem"], 200, 8);
    // special divisors: 1, 2^k, the dividend itself ± 1, all ones, zero, empty; divisor longer than the
    // dividend's length and capacity
    for lt in TYPES {
        for rt in TYPES {
            for _ in 0..scale(tier, 6) {
                let ll = gen_len(rng, lt, 200).min(200);
                let lbits = gen_bits(rng, ll);
                let l = vec_token(lt, &lbits, rng.below(2), rng.chance(1, 3));
                let rl_max = rt.cap().unwrap_or(260).min(260);
                let mut cands: Vec<Vec<bool>> = vec![];
                // small value in a long divisor
                let long = rl_max;
                let mut one = vec![false; long];
                if long > 0 { one[0] = true; }
                cands.push(one.clone());
                if long > 1 { let mut three = one.clone(); three[1] = true; cands.push(three); }
                if long > 0 { let mut p = vec![false; long]; p[rng.below(long.min(ll.max(1)))] = true; cands.push(p); }
                // the dividend's own value (± a bit), in the divisor type, if it fits
                if ll <= rl_max { cands.push(lbits.clone()); let mut x = lbits.clone(); if ll > 0 { x[0] = !x[0]; } cands.push(x); }
                cands.push(vec![true; rng.below(rl_max + 1)]);
                cands.push(vec![false; rng.below(rl_max + 1)]);
                cands.push(vec![]);
                for c in cands {
                    let r = vec_token(rt, &c, rng.below(2), rng.chance(1, 3));
                    emit(line(if rng.chance(1, 2) { "div" } else { "rem" }, &[&l, &r, "rr"]));
                }
            }
        }
        for _ in 0..scale(tier, 10) {
            let l = gen_vec(rng, lt, 200);
            for r in ["u8:0", "u8:1", "u8:3", "u64:0", "u128:0", "us:0", "u128:ffffffffffffffffffffffffffffffff", "u16:a"] {
                emit(line(if rng.chance(1, 2) { "div" } else { "rem" }, &[&l, r, "rr"]));
            }
        }
    }
}

fn gen_c04(rng: &mut Rng, tier: &str, emit: Emit) {
    gen_binary(rng, tier, emit, &["and", "or", "xor"], MAXD, 12);
    // RHS longer than LHS with bits set at and beyond the LHS length
    for lt in TYPES {
        for rt in TYPES {
            for _ in 0..scale(tier, 6) {
                let ll = gen_len(rng, lt, 200).min(rt.cap().unwrap_or(200));
                let extra = rng.below((rt.cap().unwrap_or(330).min(330)).saturating_sub(ll) + 1);
                let l = gen_vec_len(rng, lt, ll);
                let r = vec_token(rt, &vec![true; ll + extra], rng.below(2), rng.chance(1, 3));
                for op in ["and", "or", "xor"] {
                    emit(line(op, &[&l, &r, "ar"]));
                }
            }
        }
        for _ in 0..scale(tier, 30) {
            let v = gen_vec(rng, lt, MAXD);
            emit(line("not", &[&v, "v"]));
            emit(line("not", &[&v, "r"]));
        }
    }
    for ty in small_types() {
        for v in all_small(&ty, 6) {
            emit(line("not", &[&v, "v"]));
            emit(line("not", &[&v, "r"]));
        }
    }
}

const FORMS: [&str; 6] = ["vv", "vr", "rv", "rr", "av", "ar"];

fn gen_c05(rng: &mut Rng, tier: &str, emit: Emit) {
    // every amount 0..len+2 for small lengths, all values
    for ty in small_types() {
        for v in all_small(&ty, if tier == "thorough" { 6 } else { 4 }) {
            let len = tok_len(&v);
            for k in 0..=(len + 2) {
                for op in ["shl", "shr"] {
                    emit(line(op, &[&v, &format!("u8:{:x}", k), FORMS[(k + len) % 6]]));
                }
            }
        }
    }
    for ty in TYPES {
        for _ in 0..scale(tier, 120) {
            let v = gen_vec(rng, ty, MAXD);
            let len = tok_len(&v);
            let w = ty.w;
            let ks: Vec<u128> = vec![0, 1, (w - 1) as u128, w as u128, (w + 1) as u128, (2 * w) as u128, len.saturating_sub(1) as u128,
                len as u128, (len + 1) as u128, rng.below(len + 2) as u128, rng.below(len + 2) as u128,
                1u128 << 32, (1u128 << 32) - 1, u64::MAX as u128, 1u128 << 64, (1u128 << 64) + 1, u128::MAX, 1u128 << 100];
            for k in ks {
                // smallest integer type that can hold k, or a random wider one
                let mut cands: Vec<usize> = vec![];
                for w in [8usize, 16, 32, 64, 65, 128] {
                    let bits = if w == 65 { 64 } else { w };
                    if bits == 128 || k < (1u128 << bits) { cands.push(w); }
                }
                let ut = *rng.pick(&cands);
                let tok = if ut == 65 { format!("us:{:x}", k) } else { format!("u{}:{:x}", ut, k) };
                emit(line(if rng.chance(1, 2) { "shl" } else { "shr" }, &[&v, &tok, *rng.pick(&FORMS)]));
            }
        }
    }
}

fn gen_c03(rng: &mut Rng, tier: &str, emit: Emit) {
    // histories of arithmetic / logic / shift steps from the implementation's own state
    for _ in 0..scale(tier, 700) {
        let ty = *rng.pick(TYPES);
        let mut cur = gen_vec(rng, &ty, 200);
        for _ in 0..(1 + rng.below(20)) {
            let op = *rng.pick(&["add", "sub", "mul", "and", "or", "xor", "div", "rem", "shl", "shr", "not"]);
            let l = match op {
                "not" => line("not", &[&cur, if rng.chance(1, 2) { "v" } else { "r" }]),
                "shl" | "shr" => {
                    let len = tok_len(&cur);
                    let k = match rng.below(4) { 0 => rng.below(len + 2), 1 => 1, 2 => ty.w, _ => rng.below(9) };
                    line(op, &[&cur, &format!("u32:{:x}", k), *rng.pick(&FORMS)])
                }
                _ => {
                    let r = if rng.chance(1, 4) { gen_uint(rng) } else {
                        let rt = *rng.pick(TYPES);
                        gen_vec(rng, &rt, 200)
                    };
                    line(op, &[&cur, &r, "ar"])
                }
            };
            let out = emit(l);
            if let Some(n) = out_vec(&out) {
                cur = n;
            }
        }
    }
}

fn long_ops(rng: &mut Rng, fam: &str, emit: Emit) {
    use super::gen::{long_vec, LONG_LENS};
    for ty in [ty_of("D"), ty_of("A")] {
        for &len in LONG_LENS {
            let v = long_vec(rng, &ty, len);
            let wl = len - rng.below(100);
            let w = long_vec(rng, &ty, wl);
            match fam {
                "C01" => { for op in ["add", "sub"] { emit(line(op, &[&v, &w, "ar"])); } if len <= 4100 { emit(line("mul", &[&v, &w, "ar"])); } }
                "C04" => { for op in ["and", "or", "xor"] { emit(line(op, &[&v, &w, "ar"])); } emit(line("not", &[&v, "v"])); emit(line("not", &[&v, "r"])); }
                "C05" => { for k in [1usize, 63, 64, 65, len / 2, len - 1] { for f in ["rv", "av"] { emit(line("shl", &[&v, &format!("u32:{:x}", k), f])); emit(line("shr", &[&v, &format!("u32:{:x}", k), f])); } } }
                "C02" => { if len <= 1030 { let dv = long_vec(rng, &ty, len / 3);
                    emit(line("div", &[&v, &dv, "rr"])); emit(line("rem", &[&v, "u64:de0b6b3a7640000", "rr"])); } }
                _ => {}
            }
        }
    }
}

pub fn generate(fam: &str, seed: u64, tier: &str, emit: Emit) {
    let mut rng = Rng::new(seed ^ fam.bytes().fold(7u64, |a, c| a.wrapping_mul(131).wrapping_add(c as u64)));
    let rng = &mut rng;
    match fam {
        "C01" => gen_c01(rng, tier, emit),
        "C02" => gen_c02(rng, tier, emit),
        "C03" => gen_c03(rng, tier, emit),
        "C04" => gen_c04(rng, tier, emit),
        "C05" => gen_c05(rng, tier, emit),
        _ => panic!("unknown family {fam}"),
    }
    long_ops(rng, fam, emit);
}
