//! Correspondence harness for haxelion/bva: shared pieces (PRNG, token encoding, value
//! generators, the `Sub` trait tying a protocol tag to a concrete bva type, the run loop).
//! Only bva's public API is used.

#[macro_use]
pub mod fmt_gen;
pub use fmt_gen::FMT_RT_KEYS;
use bva::{Bit, BitVector, Bv, Bvd, Bvf};
use std::fmt::Write as _;
use std::io::Write as _;

// ---------------------------------------------------------------------------------------------
// PRNG (splitmix64): every random choice of a run derives from one state
// ---------------------------------------------------------------------------------------------
#[derive(Clone)]
pub struct Rng(pub u64);
impl Rng {
    pub fn new(seed: u64) -> Self {
        Rng(seed.wrapping_mul(0x9E3779B97F4A7C15) ^ 0xD1B54A32D192ED03)
    }
    pub fn next(&mut self) -> u64 {
        self.0 = self.0.wrapping_add(0x9E3779B97F4A7C15);
        let mut z = self.0;
        z = (z ^ (z >> 30)).wrapping_mul(0xBF58476D1CE4E5B9);
        z = (z ^ (z >> 27)).wrapping_mul(0x94D049BB133111EB);
        z ^ (z >> 31)
    }
    pub fn below(&mut self, n: usize) -> usize {
        if n == 0 {
            0
        } else {
            (self.next() % n as u64) as usize
        }
    }
    pub fn chance(&mut self, num: usize, den: usize) -> bool {
        self.below(den) < num
    }
    pub fn pick<'a, T>(&mut self, xs: &'a [T]) -> &'a T {
        &xs[self.below(xs.len())]
    }
}

// ---------------------------------------------------------------------------------------------
// Type descriptors (string level; generation never needs the Rust type)
// ---------------------------------------------------------------------------------------------
#[derive(Clone, Copy, Debug, PartialEq, Eq)]
pub enum Kind {
    F,
    D,
    A,
}
#[derive(Clone, Copy, Debug)]
pub struct Ty {
    pub tag: &'static str,
    pub kind: Kind,
    pub w: usize,
    pub n: usize,
}
impl Ty {
    pub fn cap(&self) -> Option<usize> {
        if self.kind == Kind::F {
            Some(self.w * self.n)
        } else {
            None
        }
    }
}
pub const TYPES: &[Ty] = &[
    Ty { tag: "F8x1", kind: Kind::F, w: 8, n: 1 },
    Ty { tag: "F8x3", kind: Kind::F, w: 8, n: 3 },
    Ty { tag: "F8x17", kind: Kind::F, w: 8, n: 17 },
    Ty { tag: "F16x2", kind: Kind::F, w: 16, n: 2 },
    Ty { tag: "F16x5", kind: Kind::F, w: 16, n: 5 },
    Ty { tag: "F32x1", kind: Kind::F, w: 32, n: 1 },
    Ty { tag: "F32x3", kind: Kind::F, w: 32, n: 3 },
    Ty { tag: "F64x1", kind: Kind::F, w: 64, n: 1 },
    Ty { tag: "F64x2", kind: Kind::F, w: 64, n: 2 },
    Ty { tag: "F64x5", kind: Kind::F, w: 64, n: 5 },
    Ty { tag: "F128x1", kind: Kind::F, w: 128, n: 1 },
    Ty { tag: "F128x3", kind: Kind::F, w: 128, n: 3 },
    Ty { tag: "FU64x5", kind: Kind::F, w: 64, n: 5 },
    Ty { tag: "D", kind: Kind::D, w: 64, n: 0 },
    Ty { tag: "A", kind: Kind::A, w: 64, n: 0 },
];
pub fn ty_of(tag: &str) -> Ty {
    *TYPES.iter().find(|t| t.tag == tag).unwrap_or_else(|| panic!("unknown type tag {tag}"))
}
pub const UINTS: &[usize] = &[8, 16, 32, 64, 128, 65];

// ---------------------------------------------------------------------------------------------
// Bit-level values and token encoding
// ---------------------------------------------------------------------------------------------
/// words of width `w` (as u128) holding `bits` (index 0 least significant), `count` words
pub fn words_of(bits: &[bool], w: usize, count: usize) -> Vec<u128> {
    let mut ws = vec![0u128; count];
    for (i, b) in bits.iter().enumerate() {
        if *b && i / w < count {
            ws[i / w] |= 1u128 << (i % w);
        }
    }
    ws
}
pub fn dots<T: std::fmt::LowerHex>(xs: &[T]) -> String {
    if xs.is_empty() {
        return "-".to_string();
    }
    let mut s = String::new();
    for (i, x) in xs.iter().enumerate() {
        if i > 0 {
            s.push('.');
        }
        write!(s, "{:x}", x).unwrap();
    }
    s
}
/// token for a canonical vector of type `ty` holding `bits`; `spare` extra zero words for `D`/`AD`;
/// `force_dyn`: store a short `A` value in the heap variant
pub fn vec_token(ty: &Ty, bits: &[bool], spare: usize, force_dyn: bool) -> String {
    let len = bits.len();
    match ty.kind {
        Kind::F => format!("{}:{}:{}", ty.tag, len, dots(&words_of(bits, ty.w, ty.n))),
        Kind::D => format!("D:{}:{}", len, dots(&words_of(bits, 64, (len + 63) / 64 + spare))),
        Kind::A => {
            if len <= 128 && !force_dyn {
                format!("AF:{}:{}", len, dots(&words_of(bits, 64, 2)))
            } else {
                format!("AD:{}:{}", len, dots(&words_of(bits, 64, (len + 63) / 64 + spare)))
            }
        }
    }
}
pub fn bits_token(bits: &[bool]) -> String {
    if bits.is_empty() {
        "t:-".into()
    } else {
        format!("t:{}", bits.iter().map(|b| if *b { '1' } else { '0' }).collect::<String>())
    }
}
pub fn bytes_token(b: &[u8]) -> String {
    format!("b:{}", dots(b))
}
pub fn chars_token(s: &str) -> String {
    let cps: Vec<u32> = s.chars().map(|c| c as u32).collect();
    format!("c:{}", dots(&cps))
}
pub fn parse_hex_list(s: &str) -> Vec<u128> {
    if s == "-" || s.is_empty() {
        return vec![];
    }
    s.split('.').map(|x| u128::from_str_radix(x, 16).expect("hex")).collect()
}
pub fn parse_bits(tok: &str) -> Vec<bool> {
    let r = tok.strip_prefix("t:").expect("bits token");
    if r == "-" {
        vec![]
    } else {
        r.chars().map(|c| c == '1').collect()
    }
}
pub fn parse_bytes(tok: &str) -> Vec<u8> {
    parse_hex_list(tok.strip_prefix("b:").expect("bytes token")).iter().map(|x| *x as u8).collect()
}
pub fn parse_chars(tok: &str) -> String {
    parse_hex_list(tok.strip_prefix("c:").expect("chars token"))
        .iter()
        .map(|x| char::from_u32(*x as u32).expect("char"))
        .collect()
}
/// `u8:ff` → (8, 255); `us:…` is `usize`, reported as width 65 so callers can pick the Rust type
pub fn parse_uint(tok: &str) -> (usize, u128) {
    let (t, x) = tok.split_once(':').expect("uint token");
    let w = if t == "us" { 65 } else { t[1..].parse().expect("uint width") };
    (w, u128::from_str_radix(x, 16).expect("uint hex"))
}
pub fn bit_of(b: bool) -> Bit {
    if b {
        Bit::One
    } else {
        Bit::Zero
    }
}
pub fn tok_bool(b: bool) -> &'static str {
    if b {
        "B:1"
    } else {
        "B:0"
    }
}
pub fn tok_bit(b: Bit) -> &'static str {
    tok_bool(b == Bit::One)
}
pub fn tok_obit(b: Option<Bit>) -> &'static str {
    match b {
        None => "O:-",
        Some(Bit::Zero) => "O:0",
        Some(Bit::One) => "O:1",
    }
}
pub fn tok_ord(o: std::cmp::Ordering) -> &'static str {
    match o {
        std::cmp::Ordering::Less => "o:lt",
        std::cmp::Ordering::Equal => "o:eq",
        std::cmp::Ordering::Greater => "o:gt",
    }
}

// ---------------------------------------------------------------------------------------------
// `Sub`: a concrete bva type behind a protocol tag
// ---------------------------------------------------------------------------------------------
pub trait Sub: BitVector {
    const TAG: &'static str;
    fn parse(tok: &str) -> Self;
    fn dump(&self) -> String;
}
fn split_vec(tok: &str) -> (&str, usize, Vec<u128>) {
    let mut it = tok.split(':');
    let tag = it.next().expect("tag");
    let len = it.next().expect("len").parse().expect("len");
    let ws = parse_hex_list(it.next().expect("words"));
    (tag, len, ws)
}
macro_rules! impl_sub_bvf {
    ($($tag:literal : $i:ty, $n:literal);+) => {$(
        impl Sub for Bvf<$i, $n> {
            const TAG: &'static str = $tag;
            fn parse(tok: &str) -> Self {
                let (tag, len, ws) = split_vec(tok);
                assert_eq!(tag, $tag, "type tag mismatch");
                assert_eq!(ws.len(), $n);
                let mut a = [0 as $i; $n];
                for i in 0..$n { a[i] = ws[i] as $i; }
                Bvf::<$i, $n>::new(a, len)
            }
            fn dump(&self) -> String {
                let (d, l) = self.clone().into_inner();
                format!("{}:{}:{}", $tag, l, dots(&d[..]))
            }
        }
    )+}
}
impl_sub_bvf!("F8x1": u8, 1; "F8x3": u8, 3; "F8x17": u8, 17; "F16x2": u16, 2; "F16x5": u16, 5; "F32x1": u32, 1; "F32x3": u32, 3;
    "F64x1": u64, 1; "F64x2": u64, 2; "F64x5": u64, 5; "F128x1": u128, 1; "F128x3": u128, 3;
    "FU64x5": usize, 5);

fn bvd_from(len: usize, ws: &[u128]) -> Bvd {
    let v: Vec<u64> = ws.iter().map(|x| *x as u64).collect();
    Bvd::new(v.into_boxed_slice(), len)
}
fn dump_bvd(tag: &str, b: &Bvd) -> String {
    let (d, l) = b.clone().into_inner();
    format!("{}:{}:{}", tag, l, dots(&d[..]))
}
impl Sub for Bvd {
    const TAG: &'static str = "D";
    fn parse(tok: &str) -> Self {
        let (tag, len, ws) = split_vec(tok);
        assert_eq!(tag, "D");
        bvd_from(len, &ws)
    }
    fn dump(&self) -> String {
        dump_bvd("D", self)
    }
}
impl Sub for Bv {
    const TAG: &'static str = "A";
    fn parse(tok: &str) -> Self {
        let (tag, len, ws) = split_vec(tok);
        match tag {
            "AF" => {
                assert_eq!(ws.len(), 2);
                Bv::Fixed(Bvf::<u64, 2>::new([ws[0] as u64, ws[1] as u64], len))
            }
            "AD" => Bv::Dynamic(bvd_from(len, &ws)),
            _ => panic!("bad Bv tag {tag}"),
        }
    }
    fn dump(&self) -> String {
        match self {
            Bv::Fixed(b) => {
                let (d, l) = b.clone().into_inner();
                format!("AF:{}:{}", l, dots(&d[..]))
            }
            Bv::Dynamic(b) => dump_bvd("AD", b),
        }
    }
}
/// the protocol tag of the *type* of a vector token (`AF`/`AD` → `A`)
pub fn ty_tag(tok: &str) -> &str {
    let t = tok.split(':').next().unwrap();
    if t == "AF" || t == "AD" {
        "A"
    } else {
        t
    }
}
pub fn tok_len(tok: &str) -> usize {
    tok.split(':').nth(1).unwrap().parse().unwrap()
}

/// `for_types!(mac!(prefix tokens))` expands `mac!(prefix tokens ; TAG: Type, …)` over all vector types
#[macro_export]
macro_rules! for_types {
    ($cb:ident ! ( $($pre:tt)* )) => {
        $cb!($($pre)* ; "F8x1": bva::Bvf<u8,1>, "F8x3": bva::Bvf<u8,3>, "F8x17": bva::Bvf<u8,17>, "F16x2": bva::Bvf<u16,2>, "F16x5": bva::Bvf<u16,5>,
            "F32x1": bva::Bvf<u32,1>, "F32x3": bva::Bvf<u32,3>, "F64x1": bva::Bvf<u64,1>,
            "F64x2": bva::Bvf<u64,2>, "F64x5": bva::Bvf<u64,5>, "F128x1": bva::Bvf<u128,1>,
            "F128x3": bva::Bvf<u128,3>, "FU64x5": bva::Bvf<usize,5>, "D": bva::Bvd, "A": bva::Bv)
    };
}
/// `d1!(tag_expr, func, (args…))` → `match tag { "F8x1" => func::<Bvf<u8,1>>(args…), … }`
#[macro_export]
macro_rules! d1 {
    ($tag:expr, $f:ident, $args:tt ; $($name:literal : $ty:ty),*) => {
        match $tag { $( $name => $f::<$ty> $args, )* t => panic!("unknown type tag {}", t) }
    };
}
/// `d2!(tag_expr, func, FirstType, (args…))` → `match tag { "F8x1" => func::<FirstType, Bvf<u8,1>>(args…), … }`
#[macro_export]
macro_rules! d2 {
    ($tag:expr, $f:ident, $t1:ty, $args:tt ; $($name:literal : $ty:ty),*) => {
        match $tag { $( $name => $f::<$t1, $ty> $args, )* t => panic!("unknown type tag {}", t) }
    };
}

// ---------------------------------------------------------------------------------------------
// Value generation (string level)
// ---------------------------------------------------------------------------------------------
/// interesting lengths for a type: word and capacity boundaries, inline/heap boundary
pub fn lattice_lengths(ty: &Ty, max_dyn: usize) -> Vec<usize> {
    let mut v = vec![0usize, 1, 2, 3, 5, 7, 8, 9, 15, 16, 17, 31, 32, 33, 63, 64, 65, 100, 127, 128, 129, 191, 192, 193, 255, 256, 257];
    let w = ty.w;
    for k in [w - 1, w, w + 1, 2 * w - 1, 2 * w, 2 * w + 1, 3 * w - 1, 3 * w] {
        v.push(k);
    }
    let lim = ty.cap().unwrap_or(max_dyn);
    if let Some(c) = ty.cap() {
        v.push(c);
        v.push(c.saturating_sub(1));
    }
    v.retain(|x| *x <= lim);
    v.sort();
    v.dedup();
    v
}
pub fn gen_len(rng: &mut Rng, ty: &Ty, max_dyn: usize) -> usize {
    let lim = ty.cap().unwrap_or(max_dyn);
    if rng.chance(2, 3) {
        let l = lattice_lengths(ty, max_dyn);
        *rng.pick(&l)
    } else {
        rng.below(lim + 1)
    }
}
/// value patterns: boundary-heavy
pub fn gen_bits(rng: &mut Rng, len: usize) -> Vec<bool> {
    let mut b = vec![false; len];
    if len == 0 {
        return b;
    }
    match rng.below(14) {
        0 => {}
        1 => b.iter_mut().for_each(|x| *x = true),
        2 => b[0] = true,
        3 => b[len - 1] = true,
        4 => {
            let k = rng.below(len + 1);
            for i in 0..k {
                b[i] = true;
            }
        }
        5 => {
            let k = rng.below(len + 1);
            for i in (len - k)..len {
                b[i] = true;
            }
        }
        6 => {
            for i in 0..len {
                b[i] = i % 2 == 0;
            }
        }
        7 => {
            for i in 0..len {
                b[i] = i % 2 == 1;
            }
        }
        8 => {
            // all ones except one bit
            b.iter_mut().for_each(|x| *x = true);
            let k = rng.below(len);
            b[k] = false;
        }
        9 => {
            // sparse: a few set bits near word boundaries
            for _ in 0..(1 + rng.below(4)) {
                let base = [0usize, 7, 8, 15, 16, 31, 32, 63, 64, 127, 128][rng.below(11)];
                let i = (base + rng.below(3)).min(len - 1);
                b[i] = true;
            }
        }
        10 => {
            // small value
            let v = rng.next() % 1000;
            for i in 0..len.min(10) {
                b[i] = (v >> i) & 1 == 1;
            }
        }
        _ => {
            for i in 0..len {
                b[i] = rng.next() & 1 == 1;
            }
        }
    }
    b
}
/// a canonical vector token of type `ty` and length `len`
pub fn gen_vec_len(rng: &mut Rng, ty: &Ty, len: usize) -> String {
    let bits = gen_bits(rng, len);
    let spare = if rng.chance(1, 3) { 1 + rng.below(3) } else { 0 };
    let force_dyn = rng.chance(1, 4);
    vec_token(ty, &bits, spare, force_dyn)
}
pub fn gen_vec(rng: &mut Rng, ty: &Ty, max_dyn: usize) -> String {
    let len = gen_len(rng, ty, max_dyn);
    gen_vec_len(rng, ty, len)
}
pub fn gen_uint(rng: &mut Rng) -> String {
    let w = *rng.pick(UINTS);
    gen_uint_w(rng, w)
}
/// `w = 65` generates a `usize`
pub fn gen_uint_w(rng: &mut Rng, w: usize) -> String {
    let bits = gen_bits(rng, if w == 65 { 64 } else { w });
    let v = words_of(&bits, 128, 1)[0];
    if w == 65 { format!("us:{:x}", v) } else { format!("u{}:{:x}", w, v) }
}

// ---------------------------------------------------------------------------------------------
// Run loop
// ---------------------------------------------------------------------------------------------
pub const DBG: &str = if cfg!(debug_assertions) { "1" } else { "0" };

/// execute one input line (everything before " => ") under catch_unwind
pub fn exec_line(line: &str, exec: fn(&[&str]) -> String) -> String {
    let toks: Vec<&str> = line.split(' ').collect();
    let r = std::panic::catch_unwind(|| exec(&toks));
    match r {
        Ok(s) => s,
        Err(_) => "panic".to_string(),
    }
}
pub fn silence_panics() {
    std::panic::set_hook(Box::new(|_| {}));
}
pub type Emit<'a> = &'a mut dyn FnMut(String) -> String;

/// common `main`: `gen <family> <seed> <tier> <out>` | `replay <file>`.
/// `generate` calls `emit(input_line)` for every case and gets the implementation's output back,
/// so that histories can continue from the implementation's own post-state.
static CASE_NO: std::sync::atomic::AtomicU64 = std::sync::atomic::AtomicU64::new(0);
static CURRENT: std::sync::Mutex<String> = std::sync::Mutex::new(String::new());

/// a case that does not return: a watchdog thread names the input (in `hang_file`, or on stdout) and exits with status 3
fn start_watchdog(hang_file: Option<String>) {
    let limit: u64 = std::env::var("VERIF_CASE_TIMEOUT").ok().and_then(|s| s.parse().ok()).unwrap_or(120);
    if let Some(f) = &hang_file {
        let _ = std::fs::remove_file(f);
    }
    std::thread::spawn(move || {
        let (mut last, mut since) = (u64::MAX, std::time::Instant::now());
        loop {
            std::thread::sleep(std::time::Duration::from_millis(250));
            let n = CASE_NO.load(std::sync::atomic::Ordering::Relaxed);
            if n != last {
                last = n;
                since = std::time::Instant::now();
            } else if since.elapsed().as_secs() >= limit {
                let cur = CURRENT.lock().map(|g| g.clone()).unwrap_or_default();
                if !cur.is_empty() {
                    match &hang_file {
                        Some(f) => {
                            let _ = std::fs::write(f, format!("{}\n", cur));
                        }
                        None => println!("{} => <no result within {} s>", cur, limit),
                    }
                    std::process::exit(3);
                }
            }
        }
    });
}

pub fn harness_main(generate: fn(&str, u64, &str, Emit), exec: fn(&[&str]) -> String) {
    silence_panics();
    let args: Vec<String> = std::env::args().collect();
    match args.get(1).map(|s| s.as_str()) {
        Some("gen") => {
            let fam = &args[2];
            let seed: u64 = args[3].parse().expect("seed");
            let tier = &args[4];
            let out = &args[5];
            let f = std::fs::File::create(out).expect("create out");
            let mut w = std::io::BufWriter::new(f);
            start_watchdog(Some(format!("{}.hang", out)));
            // a case that kills the process (abort, stack overflow): re-run with VERIF_TRACE=<file> to learn which input it was
            let mut trace = std::env::var("VERIF_TRACE").ok().map(|p| std::fs::File::create(p).expect("create trace"));
            let mut emit = |l: String| -> String {
                if let Ok(mut g) = CURRENT.lock() {
                    g.clear();
                    g.push_str(&l);
                }
                if let Some(t) = trace.as_mut() {
                    use std::io::Seek;
                    let _ = t.set_len(0);
                    let _ = t.seek(std::io::SeekFrom::Start(0));
                    let _ = writeln!(t, "{}", l);
                }
                let r = exec_line(&l, exec);
                CASE_NO.fetch_add(1, std::sync::atomic::Ordering::Relaxed);
                if let Some(t) = trace.as_mut() {
                    let _ = writeln!(t, "#returned");       // a death after this marker is the generator's, not the implementation's
                }
                if let Ok(mut g) = CURRENT.lock() {
                    g.clear();
                }
                writeln!(w, "{} => {}", l, r).unwrap();
                r
            };
            generate(fam, seed, tier, &mut emit);
            if let Ok(mut g) = CURRENT.lock() {
                g.clear();
            }
            w.flush().unwrap();
        }
        Some("replay") => {
            let text = std::fs::read_to_string(&args[2]).expect("read replay");
            start_watchdog(None);
            for l in text.lines() {
                let l = l.trim();
                if l.is_empty() || l.starts_with('#') {
                    continue;
                }
                let input = l.split(" => ").next().unwrap();
                // the profile token is that of the executing build
                let mut toks: Vec<&str> = input.split(' ').collect();
                if toks.len() > 1 {
                    toks[1] = DBG;
                }
                let input = toks.join(" ");
                if let Ok(mut g) = CURRENT.lock() {
                    g.clear();
                    g.push_str(&input);
                }
                println!("{} => {}", input, exec_line(&input, exec));
                CASE_NO.fetch_add(1, std::sync::atomic::Ordering::Relaxed);
            }
        }
        _ => {
            eprintln!("usage: gen <family> <seed> <quick|thorough> <out> | replay <file>");
            std::process::exit(2);
        }
    }
}
