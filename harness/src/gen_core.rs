//! Case generators for the h_core families (one per property id).
use bva_harness::*;

const MAXD: usize = 330; // longest dynamic/auto vector generated (crosses 64, 128, 192, 256, 320)

fn scale(tier: &str, quick: usize) -> usize {
    if tier == "thorough" {
        quick * 20
    } else if tier == "amp" {
        quick * 10
    } else {
        quick
    }
}
fn line(op: &str, args: &[&str]) -> String {
    let mut s = format!("{} {}", op, DBG);
    for a in args {
        s.push(' ');
        s.push_str(a);
    }
    s
}
/// first token of an `ok …` output if it is a vector
fn out_vec(out: &str) -> Option<String> {
    let mut it = out.split(' ');
    if it.next()? != "ok" {
        return None;
    }
    let t = it.next()?;
    let tag = t.split(':').next()?;
    if tag.starts_with('F') || tag == "D" || tag == "AF" || tag == "AD" {
        Some(t.to_string())
    } else {
        None
    }
}
fn all_small(ty: &Ty, maxlen: usize) -> Vec<String> {
    let mut v = vec![];
    for len in 0..=maxlen.min(ty.cap().unwrap_or(usize::MAX)) {
        for x in 0..(1u32 << len) {
            let bits: Vec<bool> = (0..len).map(|i| (x >> i) & 1 == 1).collect();
            v.push(vec_token(ty, &bits, 0, false));
            if ty.kind == Kind::A || ty.kind == Kind::D {
                v.push(vec_token(ty, &bits, 1, true));
            }
        }
    }
    v
}
fn small_types() -> Vec<Ty> {
    vec![ty_of("F8x1"), ty_of("F8x3"), ty_of("D"), ty_of("A")]
}
fn b(x: bool) -> &'static str {
    if x {
        "1"
    } else {
        "0"
    }
}
fn s(n: usize) -> String {
    n.to_string()
}
/// a length for an argument such that `cur + len` is near / below / above the capacity of `ty`
fn arg_len(rng: &mut Rng, ty: &Ty, cur: usize, over_ok: bool) -> usize {
    match ty.cap() {
        Some(c) => {
            let room = c.saturating_sub(cur);
            match rng.below(10) {
                0 => 0,
                1 => room,
                2 => room.saturating_sub(1),
                3 if over_ok => room + 1,
                4 if over_ok => room + 1 + rng.below(70),
                _ => rng.below(room + 1),
            }
        }
        None => match rng.below(6) {
            0 => 0,
            1 => (64 - cur % 64) % 64,
            2 => 128usize.saturating_sub(cur),
            3 => 129usize.saturating_sub(cur),
            _ => rng.below(140),
        },
    }
}


/// A vector of type `ty` produced by a short history on the real implementation (reserve / shrink, `!`, shifts,
/// logic and arithmetic with random operands, resizes, rotations, splits …). Every step is itself an emitted,
/// checked case, so an operation that leaves hidden state behind is reported by whichever property check
/// happens to build its operands through it — the properties quantify over vectors "produced by any history".
/// a vector obtained from one of the implementation's own constructors (the call is an emitted, checked case): `read` with
/// surplus bits set in the top byte, `from_binary`/`from_hex`, `collect` under every kind of `size_hint`, a conversion from
/// another implementation, or a `copy_range` of a longer vector
fn constructed(rng: &mut Rng, ty: &Ty, maxlen: usize, emit: Emit) -> Option<String> {
    let len = gen_len(rng, ty, maxlen);
    let out = match rng.below(6) {
        0 | 1 => {
            let nb = (len + 7) / 8;
            let mut bytes: Vec<u8> = (0..nb).map(|_| rng.next() as u8).collect();
            let big = rng.chance(1, 2);
            if nb > 0 { bytes[if big { 0 } else { nb - 1 }] |= if rng.chance(1, 2) { 0xff } else { 0x80 }; }
            emit(line("read", &[ty.tag, &bytes_token(&bytes), &s(len), if big { "big" } else { "little" }]))
        }
        2 => {
            let st: String = (0..len).map(|_| if rng.chance(1, 2) { '1' } else { '0' }).collect();
            emit(line("from_binary", &[ty.tag, &chars_token(&st)]))
        }
        3 => emit(line("collect", &[ty.tag, &bits_token(&gen_bits(rng, len)), ["x", "n", "l", "f", "r"][rng.below(5)]])),
        4 => {
            let st = *rng.pick(TYPES);
            let sl = len.min(st.cap().unwrap_or(usize::MAX));
            emit(line("convert", &[ty.tag, &gen_vec_len(rng, &st, sl)]))
        }
        _ => {
            let lim = ty.cap().unwrap_or(maxlen + 130);
            let src_len = (len + rng.below(130)).min(lim);
            let mut bits = gen_bits(rng, src_len);
            if rng.chance(1, 2) { for b in bits.iter_mut() { *b = true; } }
            let src = vec_token(ty, &bits, rng.below(2), rng.chance(1, 3));
            let start = rng.below(src_len - len.min(src_len) + 1);
            emit(line("copy_range", &[&src, &s(start), &s(start + len.min(src_len))]))
        }
    };
    out_vec(&out)
}

pub fn produced(rng: &mut Rng, ty: &Ty, maxlen: usize, emit: Emit) -> String {
    let mut cur = if rng.chance(1, 3) { constructed(rng, ty, maxlen, emit).unwrap_or_else(|| gen_vec(rng, ty, maxlen)) } else { gen_vec(rng, ty, maxlen) };
    if rng.chance(1, 5) {
        // start from all ones / a run of ones reaching the top, so that a following `+ 1` wraps through every word
        let len = tok_len(&cur);
        let lo = if rng.chance(1, 2) { 0 } else { rng.below(len + 1) };
        let bits: Vec<bool> = (0..len).map(|i| i >= lo).collect();
        cur = vec_token(ty, &bits, rng.below(3), rng.chance(1, 3));
    }
    const FORMS: [&str; 6] = ["vv", "vr", "rv", "rr", "av", "ar"];
    for _ in 0..(1 + rng.below(3)) {
        let len = tok_len(&cur);
        let l = match rng.below(13) {
            0 | 1 if ty.kind != Kind::F => line("reserve", &[&cur, &s(1 + rng.below(200))]),
            2 if ty.kind != Kind::F => line("shrink", &[&cur]),
            3 | 4 => line("not", &[&cur, if rng.chance(1, 2) { "v" } else { "r" }]),
            5 => {
                let k = match rng.below(3) { 0 => 1, 1 => ty.w, _ => rng.below(len + 2) };
                line(if rng.chance(1, 2) { "shl" } else { "shr" }, &[&cur, &format!("u32:{:x}", k), *rng.pick(&FORMS)])
            }
            6 if rng.chance(1, 2) => {
                // wrap-around arithmetic with a short operand: carries / borrows that run to the top word
                let r = ["u8:1", "u16:1", "u8:ff", "u64:1", "u128:1"][rng.below(5)];
                line(*rng.pick(&["add", "sub"]), &[&cur, r, "ar"])
            }
            6 | 7 => {
                let r = if rng.chance(1, 4) { gen_uint(rng) } else {
                    let rt = *rng.pick(TYPES);
                    gen_vec(rng, &rt, maxlen)
                };
                line(*rng.pick(&["or", "xor", "add", "sub", "and", "mul"]), &[&cur, &r, "ar"])
            }
            8 => {
                let lim = ty.cap().unwrap_or(maxlen + 70);
                let n = rng.below(lim + 1);
                let n = if rng.chance(1, 4) { n / 64 * 64 } else { n };
                line("resize", &[&cur, &s(n), b(rng.chance(1, 2))])
            }
            9 => line("truncate", &[&cur, &s(rng.below(len + 1))]),
            10 if len > 0 => line(if rng.chance(1, 2) { "rotl" } else { "rotr" }, &[&cur, &s(if rng.chance(1, 3) { 64 * rng.below(len / 64 + 1) } else { rng.below(len + 1) })]),
            11 if rng.chance(1, 2) => line("split_off", &[&cur, &s(rng.below(len + 1))]),
            11 => {
                // grow bit by bit: only the pushed bits are written, so anything stale above the length becomes visible
                let room = ty.cap().unwrap_or(usize::MAX) - len.min(ty.cap().unwrap_or(usize::MAX));
                let k = (1 + rng.below(70)).min(room);
                line("extend", &[&cur, &bits_token(&gen_bits(rng, k)), ["x", "n"][rng.below(2)]])
            }
            _ => line(if rng.chance(1, 2) { "pop" } else { "shr_in" }, &[&cur, "1"][..if rng.chance(1, 2) { 1 } else { 2 }]),
        };
        // `pop` takes no bit argument, `shr_in` needs one: normalise
        let l = if l.starts_with("pop ") { line("pop", &[&cur]) } else if l.starts_with("shr_in ") { line("shr_in", &[&cur, "1"]) } else { l };
        let out = emit(l);
        if let Some(n) = out_vec(&out) {
            cur = n;
        }
    }
    cur
}
/// canonical random vector, or (one time in three) one produced by a short history
pub fn any_vec(rng: &mut Rng, ty: &Ty, maxlen: usize, emit: Emit) -> String {
    if rng.chance(1, 3) { produced(rng, ty, maxlen, emit) } else { gen_vec(rng, ty, maxlen) }
}

// ---------------------------------------------------------------------------------------------------
fn edit_step(rng: &mut Rng, ty: &Ty, cur: &str, over_ok: bool) -> String {
    let len = tok_len(cur);
    match rng.below(13) {
        0 => line("push", &[cur, b(rng.chance(1, 2))]),
        1 => line("pop", &[cur]),
        2 if len > 0 => line("set", &[cur, &s(rng.below(len)), b(rng.chance(1, 2))]),
        3 => {
            let n = if rng.chance(1, 2) { rng.below(len + 1) } else { len + arg_len(rng, ty, len, over_ok) };
            // one time in four a whole number of words (word-granular fast paths need word-multiple lengths)
            let n = if rng.chance(1, 4) { (n / 64 * 64).min(ty.cap().unwrap_or(usize::MAX)) } else { n };
            line("resize", &[cur, &s(n), b(rng.chance(1, 2))])
        }
        4 => line("truncate", &[cur, &s(rng.below(len + 10))]),
        5 => {
            let n = if rng.chance(1, 4) { rng.below(len + 1) } else { len + arg_len(rng, ty, len, over_ok) };
            line("sign_extend", &[cur, &s(n)])
        }
        6 | 7 => {
            let xt = *rng.pick(TYPES);
            let xl = arg_len(rng, ty, len, over_ok).min(xt.cap().unwrap_or(MAXD));
            let x = gen_vec_len(rng, &xt, xl);
            line(if rng.chance(1, 2) { "append" } else { "prepend" }, &[cur, &x])
        }
        8 => {
            let xt = *rng.pick(TYPES);
            let xl = arg_len(rng, ty, len, over_ok).min(xt.cap().unwrap_or(MAXD));
            let x = gen_vec_len(rng, &xt, xl);
            let i = match rng.below(4) {
                0 => 0,
                1 => len,
                _ => rng.below(len + 1),
            };
            line("insert", &[cur, &s(i), &x])
        }
        9 => {
            let k = arg_len(rng, ty, len, over_ok).min(80);
            let bits = gen_bits(rng, k);
            line("extend", &[cur, &bits_token(&bits), ["x", "n", "l", "f", "r"][rng.below(5)]])
        }
        10 if len > 0 => line("rotl", &[cur, &s(if rng.chance(1, 3) { 64 * rng.below(len / 64 + 1) } else { rng.below(len + 1) })]),
        11 if len > 0 => line("rotr", &[cur, &s(if rng.chance(1, 3) { 64 * rng.below(len / 64 + 1) } else { rng.below(len + 1) })]),
        _ => line(if rng.chance(1, 2) { "shl_in" } else { "shr_in" }, &[cur, b(rng.chance(1, 2))]),
    }
}

fn observe(rng: &mut Rng, cur: &str, emit: Emit) {
    match rng.below(8) {
        0 => {
            emit(line("counts", &[cur]));
        }
        1 => {
            emit(line("to_vec", &[cur, if rng.chance(1, 2) { "big" } else { "little" }]));
        }
        2 => {
            emit(line("hash", &[cur]));
        }
        3 => {
            emit(line("fmt", &[cur, ["b", "o", "x", "X", "d"][rng.below(5)]]));
        }
        4 => {
            emit(line("len", &[cur]));
        }
        5 => {
            emit(line("capacity", &[cur]));
        }
        6 => {
            let w = ["8", "16", "32", "64", "128", "us"][rng.below(6)];
            emit(line("to_uint", &[cur, w]));
        }
        _ => {
            emit(line("iter", &[cur, "0", "next,back,hint,last"]));
        }
    }
}

fn gen_c07(rng: &mut Rng, tier: &str, emit: Emit) {
    // exhaustive small scope: every edit on every value of length ≤ 4
    for ty in small_types() {
        let vs = all_small(&ty, 3);
        let xs = all_small(&ty_of("F8x1"), 3);
        for v in &vs {
            let len = tok_len(v);
            for bit in [false, true] {
                emit(line("push", &[v, b(bit)]));
                for n in 0..=(len + 2) {
                    emit(line("resize", &[v, &s(n), b(bit)]));
                }
                for i in 0..len {
                    emit(line("set", &[v, &s(i), b(bit)]));
                }
            }
            emit(line("pop", &[v]));
            for n in 0..=(len + 2) {
                emit(line("truncate", &[v, &s(n)]));
                emit(line("sign_extend", &[v, &s(n)]));
            }
            for x in &xs {
                emit(line("append", &[v, x]));
                emit(line("prepend", &[v, x]));
                for i in 0..=len {
                    emit(line("insert", &[v, &s(i), x]));
                }
            }
        }
    }
    // append / prepend / insert on the boundary lattice of both lengths, every receiver type, every kind of argument
    edit_lattice(rng, TYPES, &["F8x3", "F64x2", "F128x3", "D", "A"], emit);
    // extend / collect with iterators whose size_hint is exact, absent, a lower bound only, or an upper bound only
    for ty in TYPES {
        for hint in ["x", "n", "l", "f", "r"] {
            for (cur_len, add) in [(0usize, 5usize), (60, 10), (120, 20), (127, 1), (127, 2), (128, 1), (100, 100), (0, 200), (190, 5)] {
                let cap = ty.cap().unwrap_or(usize::MAX);
                if cur_len > cap { continue; }
                let v = gen_vec_len(rng, &ty, cur_len);
                let bits = gen_bits(rng, add);
                emit(line("extend", &[&v, &bits_token(&bits), hint]));
                if cur_len == 0 { emit(line("collect", &[ty.tag, &bits_token(&bits), hint])); }
            }
        }
    }
    // histories of edits, continuing from the implementation's own state
    for _ in 0..scale(tier, 600) {
        let ty = *rng.pick(TYPES);
        let mut cur = match rng.below(3) {
            0 => {
                let n0 = rng.below(20).min(ty.cap().unwrap_or(20));
                let bits = gen_bits(rng, n0);
                out_vec(&emit(line("collect", &[ty.tag, &bits_token(&bits), ["x", "n", "l", "f", "r"][rng.below(5)]])))
            }
            _ => Some(gen_vec(rng, &ty, 200)),
        };
        for _ in 0..(1 + rng.below(25)) {
            let Some(c) = cur.clone() else { break };
            let l = edit_step(rng, &ty, &c, false);
            let out = emit(l);
            if let Some(n) = out_vec(&out) {
                cur = Some(n);
            }
        }
    }
}

fn gen_c03(rng: &mut Rng, tier: &str, emit: Emit) {
    // histories over the h_core operation language with observers interleaved
    for _ in 0..scale(tier, 700) {
        let ty = *rng.pick(TYPES);
        let start = match rng.below(8) {
            0 => emit(line("zeros", &[ty.tag, &s(gen_len(rng, &ty, 200))])),
            1 => emit(line("ones", &[ty.tag, &s(gen_len(rng, &ty, 200))])),
            2 => {
                let n = gen_len(rng, &ty, 200);
                let nb = (n + 7) / 8;
                let bytes: Vec<u8> = (0..nb + rng.below(3)).map(|_| if rng.chance(1, 3) { 0xff } else { rng.next() as u8 }).collect();
                emit(line("read", &[ty.tag, &bytes_token(&bytes), &s(n), if rng.chance(1, 2) { "big" } else { "little" }]))
            }
            3 => emit(line("from_uint", &[ty.tag, &gen_uint(rng)])),
            4 => {
                let st = *rng.pick(TYPES);
                let l = gen_len(rng, &st, 200).min(ty.cap().unwrap_or(usize::MAX));
                emit(line("convert", &[ty.tag, &gen_vec_len(rng, &st, l)]))
            }
            5 => {
                let n = gen_len(rng, &ty, 200) / 4;
                let str: String = (0..n).map(|_| char::from_digit(rng.below(16) as u32, 16).unwrap()).collect();
                emit(line("from_hex", &[ty.tag, &chars_token(&str)]))
            }
            _ => format!("ok {}", gen_vec(rng, &ty, 200)),
        };
        let mut cur = out_vec(&start);
        for _ in 0..(1 + rng.below(25)) {
            let Some(c) = cur.clone() else { break };
            let l = match rng.below(10) {
                0 if ty.kind != Kind::F => line("reserve", &[&c, &s(rng.below(200))]),
                1 if ty.kind != Kind::F => line("shrink", &[&c]),
                2 => {
                    let len = tok_len(&c);
                    let st = rng.below(len + 1);
                    let en = st + rng.below(len - st + 1);
                    line("copy_range", &[&c, &s(st), &s(en)])
                }
                3 => line("split_off", &[&c, &s(rng.below(tok_len(&c) + 1))]),
                _ => edit_step(rng, &ty, &c, false),
            };
            let out = emit(l);
            if let Some(n) = out_vec(&out) {
                cur = Some(n);
            }
            if let Some(c) = &cur {
                observe(rng, c, emit);
            }
        }
    }
}

fn gen_c05(rng: &mut Rng, tier: &str, emit: Emit) {
    for ty in small_types() {
        for v in all_small(&ty, 5) {
            for bit in [false, true] {
                emit(line("shl_in", &[&v, b(bit)]));
                emit(line("shr_in", &[&v, b(bit)]));
            }
        }
    }
    for _ in 0..scale(tier, 6000) {
        let ty = *rng.pick(TYPES);
        let v = any_vec(rng, &ty, MAXD, emit);
        emit(line(if rng.chance(1, 2) { "shl_in" } else { "shr_in" }, &[&v, b(rng.chance(1, 2))]));
    }
}

fn gen_c06(rng: &mut Rng, tier: &str, emit: Emit) {
    for ty in small_types() {
        for v in all_small(&ty, 5) {
            for k in 0..=tok_len(&v) {
                emit(line("rotl", &[&v, &s(k)]));
                emit(line("rotr", &[&v, &s(k)]));
            }
        }
    }
    // all k for every length up to two words of each type, a few values each
    for ty in TYPES {
        let lim = ty.cap().unwrap_or(140).min(if tier == "thorough" { 260 } else { 140 });
        for len in 0..=lim {
            let reps = if len <= 40 || tier == "thorough" { 2 } else { 1 };
            for _ in 0..reps {
                let v = gen_vec_len(rng, ty, len);
                let ks: Vec<usize> = if len <= 24 || tier == "thorough" { (0..=len).collect() } else {
                    let mut k = vec![0, 1, len, len - 1, len / 2, ty.w.min(len), (ty.w + 1).min(len), (ty.w - 1).min(len)];
                    for m in 1..=(len / ty.w) { k.push(m * ty.w); }
                    for m in 1..=(len / 64) { k.push(m * 64); }
                    for _ in 0..4 { k.push(rng.below(len + 1)); }
                    k
                };
                for k in ks {
                    emit(line(if rng.chance(1, 2) { "rotl" } else { "rotr" }, &[&v, &s(k)]));
                }
            }
        }
    }
}

fn gen_c06_aligned(rng: &mut Rng, emit: Emit) {
    for ty in TYPES {
        let lim = ty.cap().unwrap_or(320).min(320);
        let mut len = ty.w;
        while len <= lim {
            for _ in 0..3 {
                let bits = gen_bits(rng, len);
                let v = vec_token(ty, &bits, 1 + rng.below(2), rng.chance(1, 2));
                let mut k = 0;
                while k <= len {
                    emit(line("rotl", &[&v, &s(k)]));
                    emit(line("rotr", &[&v, &s(k)]));
                    k += ty.w.min(64);
                }
            }
            len += ty.w.min(64);
        }
    }
}

fn gen_c08(rng: &mut Rng, tier: &str, emit: Emit) {
    for ty in small_types() {
        for v in all_small(&ty, 5) {
            let len = tok_len(&v);
            for st in 0..=len {
                for en in st..=len {
                    emit(line("copy_range", &[&v, &s(st), &s(en)]));
                }
                emit(line("split_off", &[&v, &s(st)]));
                emit(line("split", &[&v, &s(st)]));
            }
            emit(line("first", &[&v]));
            emit(line("last", &[&v]));
        }
    }
    for _ in 0..scale(tier, 5000) {
        let ty = *rng.pick(TYPES);
        let v = any_vec(rng, &ty, MAXD, emit);
        let len = tok_len(&v);
        let pt = |rng: &mut Rng| -> usize {
            match rng.below(6) {
                0 => 0,
                1 => len,
                2 => (ty.w * (1 + rng.below(3))).min(len),
                3 => (ty.w * (1 + rng.below(3)) + 1).min(len),
                4 => (ty.w * (1 + rng.below(3))).saturating_sub(1).min(len),
                _ => rng.below(len + 1),
            }
        };
        match rng.below(6) {
            0 => {
                emit(line("split_off", &[&v, &s(pt(rng))]));
            }
            1 => {
                emit(line("split", &[&v, &s(pt(rng))]));
            }
            2 => {
                emit(line("first", &[&v]));
                emit(line("last", &[&v]));
            }
            _ => {
                let (x, y) = (pt(rng), pt(rng));
                emit(line("copy_range", &[&v, &s(x.min(y)), &s(x.max(y))]));
            }
        }
    }
    if DBG == "1" {
        // documented debug-assertion panics on out-of-range arguments
        for ty in TYPES {
            let v = gen_vec_len(rng, ty, 5.min(ty.cap().unwrap_or(5)));
            let len = tok_len(&v);
            emit(line("copy_range", &[&v, &s(len + 1), &s(len + 1)]));
            emit(line("copy_range", &[&v, "0", &s(len + 1)]));
            emit(line("split_off", &[&v, &s(len + 1)]));
        }
    }
}

fn gen_c16(rng: &mut Rng, tier: &str, emit: Emit) {
    huge_vectors(emit);
    for ty in small_types() {
        for v in all_small(&ty, 9) {
            emit(line("counts", &[&v]));
        }
    }
    for ty in TYPES {
        let lim = ty.cap().unwrap_or(MAXD).min(MAXD);
        for len in 0..=lim {
            // runs of every length from both ends, and a single opposite bit at every position
            let steps: Vec<usize> = if tier == "thorough" || len <= 70 { (0..=len).collect() } else {
                let mut k = vec![0, 1, len, len - 1];
                for m in 1..=(len / ty.w) { k.extend([m * ty.w - 1, m * ty.w, m * ty.w + 1]); }
                k.retain(|x| *x <= len);
                k
            };
            for k in steps {
                let mut lo = vec![false; len];
                for i in 0..k { lo[i] = true; }
                let hi: Vec<bool> = lo.iter().rev().cloned().collect();
                let nlo: Vec<bool> = lo.iter().map(|x| !x).collect();
                let nhi: Vec<bool> = hi.iter().map(|x| !x).collect();
                for bits in [&lo, &hi, &nlo, &nhi] {
                    emit(line("counts", &[&vec_token(ty, bits, rng.below(2), rng.chance(1, 3))]));
                }
                if k < len {
                    let mut one = vec![false; len];
                    one[k] = true;
                    emit(line("counts", &[&vec_token(ty, &one, 0, false)]));
                    let z: Vec<bool> = one.iter().map(|x| !x).collect();
                    emit(line("counts", &[&vec_token(ty, &z, 0, false)]));
                }
            }
        }
    }
    for _ in 0..scale(tier, 3000) {
        let ty = *rng.pick(TYPES);
        let v = any_vec(rng, &ty, MAXD, emit);
        emit(line("counts", &[&v]));
    }
}

fn gen_c17(rng: &mut Rng, tier: &str, emit: Emit) {
    let max = usize::MAX;
    for _ in 0..scale(tier, 12000) {
        let ty = *rng.pick(TYPES);
        let len = match rng.below(4) { 0 | 1 => rng.below(12).min(ty.cap().unwrap_or(12)), 2 => gen_len(rng, &ty, 150), _ => gen_len(rng, &ty, 700) };
        let v = gen_vec_len(rng, &ty, len);
        let mut rem = len;
        let (mut front, mut back) = (0usize, 0usize);      // bits consumed at either end: positions for the boundary-aimed arguments
        let mut calls: Vec<String> = vec![];
        let n = rng.below(9);
        for i in 0..n {
            let arg = |rng: &mut Rng, rem: usize, pos: usize| -> usize {
                match rng.below(11) {
                    0 => 0,
                    1 => 1,
                    2 => rem.saturating_sub(1),
                    3 => rem,
                    4 => rem + 1,
                    5 => max,
                    6 => max - rng.below(3),
                    7 | 8 | 9 => {
                        // land on (or right next to) the next multiple of 8 / 64 / 128 / 256 counted from this end
                        let unit = [8usize, 64, 64, 128, 128, 256][rng.below(6)];
                        let target = (pos / unit + 1 + rng.below(2)) * unit;
                        (target + rng.below(3)).saturating_sub(pos + 2)
                    }
                    _ => rng.below(rem + 2),
                }
            };
            match rng.below(if i == n - 1 { 8 } else { 6 }) {
                0 => {
                    calls.push("next".into());
                    if rem > 0 { front += 1; }
                    rem = rem.saturating_sub(1);
                }
                1 => {
                    calls.push("back".into());
                    if rem > 0 { back += 1; }
                    rem = rem.saturating_sub(1);
                }
                2 => {
                    let a = arg(rng, rem, front);
                    calls.push(format!("nth:{}", a));
                    if a < rem { front += a + 1; rem -= a + 1; } else { front += rem; rem = 0; }
                }
                3 => {
                    let a = arg(rng, rem, back);
                    calls.push(format!("nthb:{}", a));
                    if a < rem { back += a + 1; rem -= a + 1; } else { back += rem; rem = 0; }
                }
                4 | 5 => calls.push("hint".into()),
                6 => calls.push("count".into()),
                _ => calls.push("last".into()),
            }
        }
        let c = if calls.is_empty() { "-".to_string() } else { calls.join(",") };
        emit(line("iter", &[&v, b(rng.chance(1, 3)), &c]));
    }
    // full forward and backward traversals
    for ty in TYPES {
        for len in [0usize, 1, 2, 7, 8, 9, 17, 33, 64, 65] {
            if len > ty.cap().unwrap_or(usize::MAX) { continue; }
            let v = gen_vec_len(rng, ty, len);
            let fw = vec!["next"; len + 2].join(",");
            let bw = vec!["back"; len + 2].join(",");
            emit(line("iter", &[&v, "0", &fw]));
            emit(line("iter", &[&v, "0", &bw]));
            emit(line("iter", &[&v, "1", &fw]));
        }
    }
}

/// two-vector edits on a lattice: receiver length x argument length over word / inline-limit boundaries, each side with and
/// without spare storage words (and, for `Bv`, in either storage mode), argument of every kind of implementation
fn edit_lattice(rng: &mut Rng, recv: &[Ty], args: &[&str], emit: Emit) {
    const LENS: [usize; 12] = [0, 1, 8, 63, 64, 65, 127, 128, 129, 192, 200, 256];
    for ty in recv {
        let cap = ty.cap().unwrap_or(usize::MAX);
        for at in args {
            let aty = ty_of(at);
            let acap = aty.cap().unwrap_or(usize::MAX);
            let mut rls: Vec<usize> = LENS.iter().copied().filter(|l| *l <= cap).collect();
            if let Some(c) = ty.cap() {
                rls.extend([c, c.saturating_sub(1), c.saturating_sub(ty.w)]);
                rls.sort();
                rls.dedup();
            }
            for rl in rls {
                for xl in LENS.iter().copied().filter(|l| *l <= acap && *l <= 200) {
                    if cap != usize::MAX && rl + xl > cap + 1 {
                        continue;
                    }
                    for (rs, xs) in [(0usize, 0usize), (0, 1), (0, 2), (1, 0), (1, 1), (2, 3)] {
                        if (rs > 0 && ty.kind == Kind::F) || (xs > 0 && aty.kind == Kind::F) {
                            continue;
                        }
                        let v = vec_token(ty, &gen_bits(rng, rl), rs, rs > 0 || rng.chance(1, 3));
                        let x = vec_token(&aty, &gen_bits(rng, xl), xs, xs > 0 || rng.chance(1, 3));
                        match rng.below(3) {
                            0 => emit(line("append", &[&v, &x])),
                            1 => emit(line("prepend", &[&v, &x])),
                            _ => emit(line("insert", &[&v, &s(match rng.below(3) { 0 => 0, 1 => rl, _ => rng.below(rl + 1) }), &x])),
                        };
                        if rng.chance(1, 2) {
                            emit(line("append", &[&v, &x]));
                        }
                    }
                }
            }
        }
    }
}

fn gen_c18(rng: &mut Rng, tier: &str, emit: Emit) {
    edit_lattice(rng, &[ty_of("D"), ty_of("A")], &["F8x3", "F16x5", "F64x2", "F64x5", "F128x3", "D", "A"], emit);
    for ty in [ty_of("D"), ty_of("A")] {
        for c in [0usize, 1, 63, 64, 65, 127, 128, 129, 191, 192, 193, 1000] {
            emit(line("with_capacity", &[ty.tag, &s(c)]));
        }
        for _ in 0..scale(tier, 800) {
            let start = match rng.below(3) {
                0 => emit(line("with_capacity", &[ty.tag, &s(rng.below(300))])),
                _ => format!("ok {}", gen_vec(rng, &ty, 260)),
            };
            let mut cur = out_vec(&start);
            for _ in 0..(1 + rng.below(20)) {
                let Some(c) = cur.clone() else { break };
                let len = tok_len(&c);
                let l = match rng.below(8) {
                    0 | 1 => {
                        let k = match rng.below(5) { 0 => 0, 1 => 128usize.saturating_sub(len), 2 => 129usize.saturating_sub(len), 3 => (64 - len % 64) % 64 + 1, _ => rng.below(200) };
                        line("reserve", &[&c, &s(k)])
                    }
                    2 | 3 => line("shrink", &[&c]),
                    4 => line("capacity", &[&c]),
                    _ => edit_step(rng, &ty, &c, false),
                };
                let out = emit(l);
                if let Some(n) = out_vec(&out) {
                    cur = Some(n);
                }
            }
        }
    }
    // fixed types: capacity is constant, with_capacity is an empty vector
    for ty in TYPES.iter().filter(|t| t.kind == Kind::F) {
        emit(line("with_capacity", &[ty.tag, &s(rng.below(500))]));
        emit(line("capacity", &[&gen_vec(rng, ty, 0)]));
    }
}

fn gen_c19(rng: &mut Rng, tier: &str, emit: Emit) {
    // lengths near the top of `usize` (and around 2^32, 2^63) for every length-taking operation of the fixed types: the
    // capacity checks must not be defeated by wrap-around in the arithmetic that precedes them
    let huge: Vec<usize> = vec![usize::MAX, usize::MAX - 1, usize::MAX - 6, usize::MAX - 7, usize::MAX - 8, usize::MAX - 63, usize::MAX - 64,
        1 << 63, (1 << 63) + 7, (1 << 63) - 1, 1 << 32, (1 << 32) + 5, (1 << 61) + 1, usize::MAX / 8, usize::MAX / 8 + 1, usize::MAX / 64 + 1];
    for ty in TYPES.iter().filter(|t| t.kind == Kind::F) {
        for &n in &huge {
            emit(line("zeros", &[ty.tag, &s(n)]));
            emit(line("ones", &[ty.tag, &s(n)]));
            emit(line("repeat", &[ty.tag, "1", &s(n)]));
            emit(line("read", &[ty.tag, &bytes_token(&[0xffu8; 4]), &s(n), if n % 2 == 0 { "big" } else { "little" }]));
            emit(line("read", &[ty.tag, &bytes_token(&[]), &s(n), "little"]));
            emit(line("with_capacity", &[ty.tag, &s(n)]));
            let v = gen_vec(rng, ty, 0);
            emit(line("resize", &[&v, &s(n), b(n % 3 == 0)]));
            emit(line("sign_extend", &[&v, &s(n)]));
            emit(line("truncate", &[&v, &s(n)]));
        }
    }
    // the filling constructors on every type, every boundary length (0 included), both bits
    for ty in TYPES {
        for n in lattice_lengths(ty, 300) {
            emit(line("zeros", &[ty.tag, &s(n)]));
            emit(line("ones", &[ty.tag, &s(n)]));
            emit(line("repeat", &[ty.tag, "0", &s(n)]));
            emit(line("repeat", &[ty.tag, "1", &s(n)]));
        }
    }
    for ty in TYPES.iter().filter(|t| t.kind == Kind::F) {
        let c = ty.cap().unwrap();
        for n in [c - 1, c, c + 1, c + ty.w, c + 1000] {
            emit(line("zeros", &[ty.tag, &s(n)]));
            emit(line("ones", &[ty.tag, &s(n)]));
            emit(line("repeat", &[ty.tag, "1", &s(n)]));
            let bits = vec![true; n];
            emit(line("collect", &[ty.tag, &bits_token(&bits), "x"]));
            emit(line("collect", &[ty.tag, &bits_token(&bits), "n"]));
            emit(line("from_binary", &[ty.tag, &chars_token(&"1".repeat(n))]));
            emit(line("from_hex", &[ty.tag, &chars_token(&"f".repeat((n + 3) / 4))]));
            emit(line("from_bytes", &[ty.tag, &bytes_token(&vec![0xffu8; (n + 7) / 8]), "little"]));
            emit(line("read", &[ty.tag, &bytes_token(&vec![0xffu8; (n + 7) / 8 + 1]), &s(n), "big"]));
            let st = ty_of("D");
            emit(line("convert", &[ty.tag, &gen_vec_len(rng, &st, n)]));
            let st = ty_of("A");
            emit(line("convert", &[ty.tag, &gen_vec_len(rng, &st, n)]));
        }
        for _ in 0..scale(tier, 250) {
            let len = match rng.below(4) { 0 => c, 1 => c - 1, 2 => c.saturating_sub(1 + rng.below(10)), _ => rng.below(c + 1) };
            let v = gen_vec_len(rng, ty, len);
            let l = edit_step(rng, ty, &v, true);
            emit(l);
        }
        if DBG == "1" {
            let v = gen_vec_len(rng, ty, c / 2);
            let len = tok_len(&v);
            emit(line("get", &[&v, &s(len)]));
            emit(line("set", &[&v, &s(len), "1"]));
            emit(line("copy_range", &[&v, &s(len + 1), &s(len + 1)]));
            emit(line("split_off", &[&v, &s(len + 1)]));
        }
    }
    // integer sources beyond capacity
    for ty in TYPES.iter().filter(|t| t.kind == Kind::F) {
        for _ in 0..scale(tier, 40) {
            emit(line("from_uint", &[ty.tag, &gen_uint(rng)]));
            let w = [8usize, 16, 32, 64, 128][rng.below(5)];
            let k = (ty.cap().unwrap() / w) + rng.below(3);
            let xs: Vec<u128> = (0..k).map(|_| rng.next() as u128 & if w == 128 { u128::MAX } else { (1u128 << w) - 1 }).collect();
            emit(line("from_slice", &[ty.tag, &s(w), &format!("b:{}", dots(&xs))]));
        }
    }
}

fn gen_c11(rng: &mut Rng, tier: &str, emit: Emit) {
    // the two error values as text (Display and Debug; the harness itself reports errors through Debug)
    emit(line("errdisplay", &["cap", "0"]));
    for n in [0usize, 1, 9, 10, 127, 12345, usize::MAX] {
        emit(line("errdisplay", &["fmt", &s(n)]));
    }
    // Bit <-> bool / integer
    for t in ["u8", "u16", "u32", "u64", "u128", "us"] {
        for x in ["0", "1", "2", "80", "ff"] {
            emit(line("bitconv", &[&format!("{}:{}", t, x)]));
        }
        for _ in 0..6 {
            let w = match t { "u8" => 8, "u16" => 16, "u32" => 32, "u64" => 64, "u128" => 128, _ => 65 };
            emit(line("bitconv", &[&gen_uint_w(rng, w)]));
        }
    }
    // exhaustive u8 (and u16 in the thorough tier) into every type; lattice for wider
    for ty in TYPES {
        for x in 0..=255u32 {
            emit(line("from_uint", &[ty.tag, &format!("u8:{:x}", x)]));
        }
        let step = if tier == "thorough" { 1 } else { 257 };
        let mut x = 0u32;
        while x <= 0xffff {
            emit(line("from_uint", &[ty.tag, &format!("u16:{:x}", x)]));
            x += step;
        }
        for _ in 0..scale(tier, 150) {
            emit(line("from_uint", &[ty.tag, &gen_uint(rng)]));
        }
        for _ in 0..scale(tier, 60) {
            let w = [8usize, 16, 32, 64, 128][rng.below(5)];
            let k = rng.below(6);
            let xs: Vec<u128> = (0..k).map(|_| { let v = words_of(&gen_bits(rng, w), 128, 1)[0]; v }).collect();
            emit(line("from_slice", &[ty.tag, &s(w), &format!("b:{}", dots(&xs))]));
        }
        // vector → integer: empty, exact fit, one bit too many
        for w in ["8", "16", "32", "64", "128", "us"] {
            let wn = if w == "us" { 64 } else { w.parse::<usize>().unwrap() };
            for len in [0usize, 1, wn.saturating_sub(1), wn, wn + 1, wn + 9, 2 * wn] {
                if len > ty.cap().unwrap_or(MAXD) { continue; }
                for _ in 0..3 {
                    emit(line("to_uint", &[&gen_vec_len(rng, ty, len), w]));
                }
                // significant bits exactly wn / wn+1
                if len > wn {
                    let mut bits = vec![false; len];
                    bits[wn] = true;
                    emit(line("to_uint", &[&vec_token(ty, &bits, 0, false), w]));
                    bits[wn] = false;
                    if wn > 0 { bits[wn - 1] = true; }
                    emit(line("to_uint", &[&vec_token(ty, &bits, 1, true), w]));
                }
            }
        }
        for _ in 0..scale(tier, 200) {
            let w = ["8", "16", "32", "64", "128", "us"][rng.below(6)];
            let v = any_vec(rng, ty, MAXD, emit);
            emit(line("to_uint", &[&v, w]));
        }
    }
    if tier == "thorough" {
        for v in all_small(&ty_of("F8x3"), 10) {
            emit(line("to_uint", &[&v, "8"]));
        }
    }
}

fn gen_c12(rng: &mut Rng, tier: &str, emit: Emit) {
    for tt in TYPES {
        for st in TYPES {
            // every source length up to the source capacity (or a bit beyond two target words)
            let lim = st.cap().unwrap_or(MAXD).min(MAXD);
            let mut lens: Vec<usize> = if lim <= 64 || tier == "thorough" { (0..=lim).collect() } else { lattice_lengths(st, lim) };
            if let Some(c) = tt.cap() {
                lens.extend([c.saturating_sub(1), c, c + 1].iter().filter(|x| **x <= lim));
            }
            // the by-value forms that exist are separately written bodies
            let byval = (tt.kind != Kind::F || st.kind != Kind::F) && tt.tag != st.tag;
            for len in lens {
                let v = gen_vec_len(rng, st, len);
                emit(line("convert", &[tt.tag, &v]));
                if byval {
                    emit(line("convertv", &[tt.tag, &v]));
                }
            }
            for _ in 0..scale(tier, 10) {
                let v = any_vec(rng, st, MAXD, emit);
                emit(line("convert", &[tt.tag, &v]));
                if byval {
                    emit(line("convertv", &[tt.tag, &v]));
                }
            }
        }
    }
}

fn gen_c13(rng: &mut Rng, tier: &str, emit: Emit) {
    for ty in TYPES {
        let lim = ty.cap().unwrap_or(MAXD).min(if tier == "thorough" { MAXD } else { 200 });
        for len in 0..=lim {
            for e in ["little", "big"] {
                let v = gen_vec_len(rng, ty, len);
                emit(line("to_vec", &[&v, e]));
                // read with surplus bits set in the top byte, and some trailing bytes
                let nb = (len + 7) / 8;
                let extra = rng.below(3);
                let mut bytes: Vec<u8> = (0..nb + extra).map(|_| rng.next() as u8).collect();
                if nb > 0 && rng.chance(1, 2) {
                    let top = if e == "little" { nb - 1 } else { 0 };
                    bytes[top] |= 0x80;
                    if rng.chance(1, 2) { bytes[top] = 0xff; }
                }
                emit(line("read", &[ty.tag, &bytes_token(&bytes), &s(len), e]));
                if len % 8 == 0 {
                    emit(line("from_bytes", &[ty.tag, &bytes_token(&bytes[..nb]), e]));
                }
            }
        }
        // short input, over capacity
        for _ in 0..scale(tier, 20) {
            let len = gen_len(rng, ty, MAXD) + 1;
            let nb = (len + 7) / 8;
            let bytes: Vec<u8> = (0..rng.below(nb)).map(|_| rng.next() as u8).collect();
            emit(line("read", &[ty.tag, &bytes_token(&bytes), &s(len), "little"]));
        }
        if let Some(c) = ty.cap() {
            for n in [c + 1, c + 8, c + 9] {
                emit(line("read", &[ty.tag, &bytes_token(&vec![0xaa; (n + 7) / 8]), &s(n), "big"]));
                emit(line("from_bytes", &[ty.tag, &bytes_token(&vec![0x55; (n + 7) / 8]), "little"]));
            }
        }
        for _ in 0..scale(tier, 100) {
            let k = rng.below(ty.cap().unwrap_or(MAXD) / 8 + 2);
            let bytes: Vec<u8> = (0..k).map(|_| rng.next() as u8).collect();
            emit(line("from_bytes", &[ty.tag, &bytes_token(&bytes), if rng.chance(1, 2) { "big" } else { "little" }]));
        }
    }
}


/// little-endian bits of the number written in `base` by `digits` (most significant first)
fn bits_of_digits(digits: &[u32], base: u32, len: usize) -> Vec<bool> {
    let mut limbs: Vec<u64> = vec![0; (len + 63) / 64 + 1];
    for d in digits {
        let mut carry = *d as u128;
        for l in limbs.iter_mut() {
            let t = (*l as u128) * base as u128 + carry;
            *l = t as u64;
            carry = t >> 64;
        }
    }
    (0..len).map(|i| (limbs[i / 64] >> (i % 64)) & 1 == 1).collect()
}
/// values whose numeral in base 2, 8, 10 or 16 has long runs of zero digits (or of the largest digit) in the middle:
/// round numbers such as 10^19, 10^38+7, 0x1_0000…0005, 999…9 — what chunked digit extraction gets wrong
fn digit_lattice(rng: &mut Rng, tier: &str, emit: Emit) {
    for ty in TYPES {
        let cap = ty.cap().unwrap_or(260).min(260);
        if cap < 16 { continue; }
        for _ in 0..scale(tier, 40) {
            let base = [10u32, 10, 10, 16, 8, 2][rng.below(6)];
            let bits_per = (base as f64).log2();
            let maxd = ((cap as f64) / bits_per).floor() as usize;
            if maxd < 2 { continue; }
            let nd = 2 + rng.below(maxd - 1);
            let mut ds: Vec<u32> = (0..nd).map(|_| rng.below(base as usize) as u32).collect();
            ds[0] = 1 + rng.below(base as usize - 1) as u32;
            // a run of zeros (or of base-1) somewhere below the top digit, often aligned to 19 / 16 / 9 / 8 digits
            let fillv = if rng.chance(3, 4) { 0 } else { base - 1 };
            let runlen = match rng.below(5) { 0 => 19, 1 => 16, 2 => 9, 3 => 38, _ => 1 + rng.below(nd) }.min(nd - 1);
            let start = 1 + rng.below(nd - runlen);
            let start = if rng.chance(1, 2) { nd - runlen - ((nd - runlen - 1) / runlen.max(1)) * 0 } else { start }.min(nd - runlen).max(1);
            for i in start..start + runlen { ds[i] = fillv; }
            if rng.chance(1, 3) { for i in 1..nd { ds[i] = fillv; } }           // d·base^k exactly (or d99…9)
            let len = cap - rng.below(cap / 8 + 1);
            let bits = bits_of_digits(&ds, base, len);
            let v = vec_token(ty, &bits, rng.below(2), rng.chance(1, 4));
            for k in ["d", "x", "o", "b"] {
                // the model's decimal conversion is the crate's own O(n^2)-per-digit loop: keep the long ones few
                if k == "d" && base != 10 && len > 130 { continue; }
                if k == "d" && len > 200 && !rng.chance(1, 3) { continue; }
                emit(line("fmt", &[&v, k]));
            }
        }
    }
}

const FMT_SPECS: &[&str] = &["S20.n.0.0.0.-", "S20.n.0.1.0.-", "S20.n.1.0.0.-", "S20.n.1.1.0.-", "S20.n.0.0.1.8", "S20.n.0.1.1.10", "S20.n.1.1.1.12", "S20.n.0.0.0.12", "S20.l.0.0.0.12", "S20.r.0.0.0.12", "S20.c.0.0.0.12", "S2a.l.0.0.0.12", "S2a.c.0.0.0.13", "S5f.r.1.1.0.20", "S20.n.0.0.0.1", "S23.l.0.0.0.1", "S30.l.0.0.0.9", "S20.l.0.0.1.9", "S20.c.1.1.1.30", "S20.n.0.0.0.40", "S20.n.0.1.0.40", "Se9.c.0.0.0.11", "S20.c.0.1.0.7", "S2d.r.1.0.0.3", "S20.n.0.1.1.200", "S20.l.0.1.0.140"];

/// decimal numerals at digit-count boundaries on long heap vectors: lengths `n` at which `2^n` lies just below or just above a
/// power of ten (where a digit-count estimate from the bit length goes wrong first), with the values `2^n - 1`, `2^(n-1)`,
/// `10^k - 1`, `10^k`, `10^k + 1`. Compared with the L0 numeral only (`fmtL`).
fn decimal_boundaries(rng: &mut Rng, tier: &str, emit: Emit) {
    let nmax = if tier == "thorough" { 4400 } else { 2300 };
    let l2 = std::f64::consts::LOG10_2;
    for n in 130..=nmax {
        let x = n as f64 * l2;
        let fr = x - x.floor();
        let near = fr < 0.004 || fr > 0.996;
        if !(near || (n <= 400 && n % 7 == 0) || rng.chance(1, 400)) {
            continue;
        }
        let k = x.floor() as usize;                     // 10^k <= 2^n (roughly)
        let mut vals: Vec<Vec<bool>> = vec![vec![true; n], { let mut b = vec![false; n]; b[n - 1] = true; b }];
        for kk in [k, k + 1] {
            let mut ds = vec![0u32; kk + 1];
            ds[0] = 1;                                   // 10^kk
            let p = bits_of_digits(&ds, 10, n + 8);
            let nines = bits_of_digits(&vec![9u32; kk], 10, n + 8);       // 10^kk - 1
            let mut p1 = p.clone();
            p1[0] = true;                                // 10^kk + 1
            for b in [p, nines, p1] {
                let sig = b.iter().rposition(|x| *x).map(|i| i + 1).unwrap_or(0);
                if sig <= n + 8 {
                    vals.push(b[..sig.max(1)].to_vec());
                }
            }
        }
        for bits in vals {
            let ty = ty_of(if rng.chance(1, 2) { "D" } else { "A" });
            let v = vec_token(&ty, &bits, rng.below(2), true);
            emit(line("fmtL", &[&v, "d"]));
        }
    }
}

fn gen_c14(rng: &mut Rng, tier: &str, emit: Emit) {
    digit_lattice(rng, tier, emit);
    decimal_boundaries(rng, tier, emit);
    // whole strings under format specs (#, +, 0, width, fill, alignment) for all five traits
    for ty in TYPES {
        for _ in 0..scale(tier, 12) {
            let len = match rng.below(4) { 0 => 0, 1 => rng.below(9), _ => gen_len(rng, ty, 200) };
            let mut bits = gen_bits(rng, len);
            if rng.chance(1, 3) { let z = rng.below(len + 1); for i in (len - z)..len { bits[i] = false; } }
            let v = vec_token(ty, &bits, rng.below(2), rng.chance(1, 4));
            for sp in FMT_SPECS {
                let k = ["b", "o", "d", "x", "X"][rng.below(5)];
                if k == "d" && len > 140 { continue; }
                emit(line("fmtspec", &[&v, k, sp]));
            }
            // every combination of fill x alignment x + x # x 0, widths around the numeral's own length
            for _ in 0..40 {
                let k = ["b", "o", "d", "x", "X"][rng.below(5)];
                if k == "d" && len > 140 { continue; }
                let key = *rng.pick(FMT_RT_KEYS);
                let digits = match k { "b" => len, "o" => (len + 2) / 3, "d" => len * 3 / 10 + 1, _ => (len + 3) / 4 }.max(1);
                let w = match rng.below(6) { 0 => rng.below(4), 1 => digits, 2 => digits + 1 + rng.below(4), 3 => digits.saturating_sub(1 + rng.below(3)), 4 => digits + 2 + rng.below(40), _ => rng.below(300) };
                emit(line("fmtspec", &[&v, k, &format!("R{}.{}", key, w)]));
            }
        }
    }
    for ty in small_types() {
        for v in all_small(&ty, 7) {
            for k in ["b", "o", "d", "x", "X"] {
                emit(line("fmt", &[&v, k]));
            }
        }
    }
    for ty in TYPES {
        for _ in 0..scale(tier, 250) {
            let len = gen_len(rng, ty, 200);
            let mut bits = gen_bits(rng, len);
            // leading zero digits / groups
            if rng.chance(1, 3) {
                let z = rng.below(len + 1);
                for i in (len - z)..len { bits[i] = false; }
            }
            let v = vec_token(ty, &bits, rng.below(2), rng.chance(1, 4));
            for k in ["b", "o", "d", "x", "X"] {
                if k == "d" && len > 64 && !rng.chance(1, 6) { continue; }
                emit(line("fmt", &[&v, k]));
            }
        }
    }
}

fn gen_c15(rng: &mut Rng, tier: &str, emit: Emit) {
    let mut bad: Vec<char> = vec!['2', 'g', 'G', ' ', '-', '+', 'x', '_', 'é', '１', '𝟏', 'z', '/', ':', '@', '`', '٣', 'Ａ'];
    // non-ASCII characters whose low code-point byte (or low 7 bits) is an ASCII digit / hex letter: a decoder that
    // narrows `char` to a byte would accept them
    for d in ['0', '1', '7', '9', 'a', 'c', 'f', 'A', 'F'] {
        for hi in [0x100u32, 0x400, 0xFF00, 0x10000, 0x80] {
            if let Some(c) = char::from_u32(hi + d as u32) {
                bad.push(c);
            }
        }
    }
    // every code point up to U+017F (all ASCII incl. control characters, Latin-1, Latin Extended-A) as the only unusual character of
    // an otherwise valid string, at the first, a middle and the last position; short strings for every type, long ones (the heap
    // path of `Bv`) for the dynamic types
    for ty in TYPES {
        for hex in [false, true] {
            let op = if hex { "from_hex" } else { "from_binary" };
            let mut ns = vec![3usize];
            if ty.kind != Kind::F { ns.push(if hex { 40 } else { 140 }); }
            for n in ns {
                if n * (if hex { 4 } else { 1 }) > ty.cap().unwrap_or(usize::MAX) { continue; }
                for cp in 0u32..0x180 {
                    let c = char::from_u32(cp).unwrap();
                    let pos = [0, n / 2, n - 1][(cp as usize + n) % 3];
                    let s: String = (0..n).map(|i| if i == pos { c } else if hex { ['a', '7', 'F', '0'][i % 4] } else { ['1', '0'][i % 2] }).collect();
                    emit(line(op, &[ty.tag, &chars_token(&s)]));
                }
            }
        }
    }
    for ty in TYPES {
        let cap = ty.cap().unwrap_or(MAXD);
        for hex in [false, true] {
            let per = if hex { 4 } else { 1 };
            let op = if hex { "from_hex" } else { "from_binary" };
            let maxc = cap / per;
            let mut lens: Vec<usize> = vec![0, 1, 2, 3, maxc.saturating_sub(1), maxc, maxc + 1, maxc + 5];
            for l in [32usize, 33, 127, 128, 129, 130] { lens.push(l / per); lens.push(l / per + 1); }
            for _ in 0..scale(tier, 40) { lens.push(rng.below(maxc + 3)); }
            for n in lens {
                let n = n.min(400);
                let mk = |rng: &mut Rng| -> Vec<char> {
                    (0..n).map(|_| if hex {
                        let d = rng.below(16) as u32;
                        let c = char::from_digit(d, 16).unwrap();
                        if rng.chance(1, 2) { c.to_ascii_uppercase() } else { c }
                    } else if rng.chance(1, 2) { '1' } else { '0' }).collect()
                };
                let good = mk(rng);
                emit(line(op, &[ty.tag, &chars_token(&good.iter().collect::<String>())]));
                if n > 0 {
                    // leading zeros
                    let mut z = good.clone();
                    for i in 0..rng.below(n + 1) { z[i] = '0'; }
                    emit(line(op, &[ty.tag, &chars_token(&z.iter().collect::<String>())]));
                    // one or two offending characters
                    let mut x = good.clone();
                    let i = match rng.below(3) { 0 => 0, 1 => n - 1, _ => rng.below(n) };
                    x[i] = *rng.pick(&bad);
                    if hex && x[i] == 'x' { x[i] = 'g'; }
                    if rng.chance(1, 3) { let j = rng.below(n); x[j] = *rng.pick(&bad); }
                    emit(line(op, &[ty.tag, &chars_token(&x.iter().collect::<String>())]));
                }
            }
        }
    }
}

/// pairs `(a, b)` related through their storage: `b` is `a` zero-extended (equal), or `a` plus one bit above all of `a`'s storage
/// words, or `a` with its top word changed; different lengths, spare words and storage modes; both orders are emitted by the caller
fn related_pairs(rng: &mut Rng, lt: &Ty, rt: &Ty) -> Vec<(String, String)> {
    let mut out = vec![];
    let lim_l = lt.cap().unwrap_or(260).min(260);
    let lim_r = rt.cap().unwrap_or(330).min(330);
    let la = [0usize, 1, 8, 63, 64, 65, 128, 130, 192][rng.below(9)].min(lim_l);
    let mut abits = gen_bits(rng, la);
    if rng.chance(1, 4) { for b in abits.iter_mut() { *b = false; } }
    for kind in 0..4 {
        let lb = match rng.below(3) { 0 => la, 1 => (la + 1 + rng.below(70)).min(lim_r), _ => ((la + 63) / 64 * 64 + 64 * (1 + rng.below(2)) + rng.below(3)).min(lim_r) };
        if lb < la { continue; }
        let mut bbits = abits.clone();
        bbits.resize(lb, false);
        match kind {
            0 => {}
            1 if lb > la => { let k = la + rng.below(lb - la); bbits[k] = true; }
            2 if lb > (la + 63) / 64 * 64 => { let lo = (la + 63) / 64 * 64; let k = lo + rng.below(lb - lo); bbits[k] = true; }
            3 if la > 0 => { let k = la - 1 - rng.below(la.min(64)); bbits[k] = !bbits[k]; }
            _ => continue,
        }
        let a = vec_token(lt, &abits, rng.below(3), rng.chance(1, 2));
        let b = vec_token(rt, &bbits, rng.below(3), rng.chance(1, 2));
        out.push((a, b));
    }
    out
}

/// one heap vector longer than 2^32 bits (512 MiB): counts, equality and hashing must not truncate lengths to 32 bits
fn huge_vectors(emit: Emit) {
    // needs about 1 GiB for a moment: skipped (not failed) where the machine or its cgroup does not have 3 GiB to spare
    let avail_kb = std::fs::read_to_string("/proc/meminfo").ok().and_then(|m| {
        m.lines().find(|l| l.starts_with("MemAvailable:")).and_then(|l| l.split_whitespace().nth(1).and_then(|x| x.parse::<u64>().ok()))
    }).unwrap_or(0);
    let cgroup_ok = match std::fs::read_to_string("/sys/fs/cgroup/memory.max") {
        Ok(s) => s.trim() == "max" || s.trim().parse::<u64>().map_or(true, |b| b >= 3 << 30),
        Err(_) => true,
    };
    if avail_kb < 3 * 1024 * 1024 || !cgroup_ok {
        return;
    }
    let n: usize = (1usize << 32) + 64;
    for ps in ["0", "5,4294967296"] {
        emit(line("hugecounts", &[&s(n), ps]));
    }
}

fn gen_c10(rng: &mut Rng, tier: &str, emit: Emit) {
    huge_vectors(emit);
    for ty in small_types() {
        for v in all_small(&ty, 6) {
            emit(line("hash", &[&v]));
        }
    }
    for ty in TYPES {
        for _ in 0..scale(tier, 300) {
            // the same value at two lengths / capacities / storage modes
            let len = gen_len(rng, ty, 260);
            let mut bits = gen_bits(rng, len);
            if rng.chance(1, 2) {
                let z = rng.below(len + 1);
                for i in (len - z)..len { bits[i] = false; }
            }
            emit(line("hash", &[&vec_token(ty, &bits, 0, false)]));
            emit(line("hash", &[&vec_token(ty, &bits, 2, true)]));
            let sig = bits.iter().rposition(|x| *x).map_or(0, |p| p + 1);
            let l2 = sig + rng.below(len - sig + 1);
            emit(line("hash", &[&vec_token(ty, &bits[..l2], rng.below(2), rng.chance(1, 2))]));
        }
        // pairs of one type: `==` in both orders and "equal implies identically hashed"
        for _ in 0..scale(tier, 60) {
            for (a, b) in related_pairs(rng, ty, ty) {
                emit(line("eqhash", &[&a, &b]));
                emit(line("eqhash", &[&b, &a]));
            }
            let a = any_vec(rng, ty, 260, emit);
            let b = any_vec(rng, ty, 260, emit);
            emit(line("eqhash", &[&a, &b]));
            emit(line("eqhash", &[&a, &a]));
        }
    }
}


fn gen_c09(rng: &mut Rng, tier: &str, emit: Emit) {
    for lt in TYPES {
        for rt in TYPES {
            for _ in 0..scale(tier, 2) {
                for (a, b) in related_pairs(rng, lt, rt) {
                    emit(line("cmpall", &[&a, &b]));
                    emit(line("cmpall", &[&b, &a]));
                }
            }
        }
    }
    // exhaustive small scope over pairs of (type, length, value)
    let st = small_types();
    for lt in &st {
        for rt in &st {
            let ls = all_small(lt, 3);
            let rs = all_small(rt, 3);
            for l in &ls {
                for r in &rs {
                    emit(line("cmpall", &[l, r]));
                }
            }
        }
    }
    for lt in TYPES {
        for rt in TYPES {
            for _ in 0..scale(tier, 40) {
                let ll = gen_len(rng, lt, MAXD);
                let lbits = gen_bits(rng, ll);
                let l = vec_token(lt, &lbits, rng.below(3), rng.chance(1, 3));
                let rcap = rt.cap().unwrap_or(MAXD);
                // the right operand: equal value at another length, off by one bit somewhere, or unrelated
                let mut rbits: Vec<bool> = match rng.below(5) {
                    0 | 1 => {
                        let rl = match rng.below(4) { 0 => ll, 1 => ll + rng.below(70), 2 => ll.saturating_sub(rng.below(70)), _ => gen_len(rng, rt, MAXD) };
                        let mut b = lbits.clone();
                        b.resize(rl, false);
                        b
                    }
                    _ => { let n = gen_len(rng, rt, MAXD); gen_bits(rng, n) }
                };
                rbits.truncate(rcap);
                if !rbits.is_empty() && rng.chance(1, 2) {
                    let i = match rng.below(4) { 0 => 0, 1 => rbits.len() - 1, 2 => (rbits.len() - 1).min(64 * rng.below(4)), _ => rng.below(rbits.len()) };
                    rbits[i] = !rbits[i];
                }
                let r = vec_token(rt, &rbits, rng.below(3), rng.chance(1, 3));
                emit(line("cmpall", &[&l, &r]));
            }
        }
    }
}

fn gen_c02(rng: &mut Rng, tier: &str, emit: Emit) {
    // the trait method div_rem::<B> with B of every implementation (including B = Bv)
    let st = small_types();
    for lt in &st {
        for rt in &st {
            for l in all_small(lt, 3) {
                for r in all_small(rt, 3) {
                    emit(line("divrem", &[&l, &r]));
                }
            }
        }
    }
    for lt in TYPES {
        for rt in TYPES {
            for _ in 0..scale(tier, 10) {
                let ll = gen_len(rng, lt, 180).min(180);
                let rl = match rng.below(4) { 0 => ll, 1 => ll + rng.below(80), _ => gen_len(rng, rt, 180) }.min(rt.cap().unwrap_or(240)).min(240);
                let l = gen_vec_len(rng, lt, ll);
                let mut rb = gen_bits(rng, rl);
                if rng.chance(1, 2) {
                    // a small divisor value in a long divisor
                    let keep = rng.below(ll.min(rl) + 1);
                    for i in keep..rl { rb[i] = false; }
                }
                emit(line("divrem", &[&l, &vec_token(rt, &rb, rng.below(2), rng.chance(1, 3))]));
            }
        }
    }
}



/// long heap vectors (beyond any plausible internal buffer size): the dynamic and auto types are unbounded
pub const LONG_LENS: &[usize] = &[520, 1030, 2049, 4100, 8200, 16390, 33000];
pub fn long_vec(rng: &mut Rng, ty: &Ty, len: usize) -> String {
    // asymmetric content: random, with a marker pattern in the first and last bytes
    let mut bits: Vec<bool> = (0..len).map(|_| rng.next() & 1 == 1).collect();
    if rng.chance(1, 4) { for b in bits.iter_mut().skip(len / 3).take(len / 3) { *b = false; } }
    if len > 16 { bits[0] = true; bits[1] = false; bits[len - 1] = true; bits[len - 2] = false; }
    vec_token(ty, &bits, rng.below(2), false)
}
/// shrinking a very long heap vector to a short, unaligned length (frees whole pages: size-threshold branches), then looking at it
fn big_shrink(rng: &mut Rng, fam: &str, emit: Emit) {
    for ty in [ty_of("D"), ty_of("A")] {
        for len in [40_000usize, 70_001] {
            let v = long_vec(rng, &ty, len);
            let keep = [1usize, 70, 100, 4097, len - 32_768 - 1, len - 32_769 - 64][rng.below(6)];
            let l = match (fam, rng.below(3)) {
                ("C08", 0) => line("split", &[&v, &s(keep)]),
                ("C08", _) => line("split_off", &[&v, &s(keep)]),
                (_, 0) => line("truncate", &[&v, &s(keep)]),
                (_, 1) => line("resize", &[&v, &s(keep), "1"]),
                _ => line("split_off", &[&v, &s(keep)]),
            };
            let out = emit(l);
            if let Some(n) = out_vec(&out) {
                emit(line("counts", &[&n]));
                emit(line("push", &[&n, "1"]));
                emit(line("shrink", &[&n]));
            }
        }
    }
}

/// growing a heap vector that is already longer than 65 536 bits by more than that in one operation (growth-policy branches)
fn big_grow(rng: &mut Rng, emit: Emit) {
    for ty in [ty_of("D"), ty_of("A")] {
        let (lv, lx) = (66_000 + rng.below(100), 67_000 + rng.below(100));
        let v = long_vec(rng, &ty, lv);
        let x = long_vec(rng, &ty_of("D"), lx);
        let len = tok_len(&v);
        emit(line("append", &[&v, &x]));
        emit(line("prepend", &[&v, &x]));
        emit(line("insert", &[&v, &s(len / 3), &x]));
        emit(line("resize", &[&v, &s(len + 70_001), "1"]));
        emit(line("sign_extend", &[&v, &s(len + 66_000)]));
        emit(line("reserve", &[&v, &s(70_000)]));
    }
}

fn long_cases(rng: &mut Rng, fam: &str, emit: Emit) {
    if matches!(fam, "C03" | "C07" | "C08" | "C18") {
        big_shrink(rng, fam, emit);
    }
    if matches!(fam, "C03" | "C07" | "C18") {
        big_grow(rng, emit);
    }
    for ty in [ty_of("D"), ty_of("A")] {
        for &len in LONG_LENS {
            let v = long_vec(rng, &ty, len);
            match fam {
                "C13" => {
                    for e in ["little", "big"] {
                        emit(line("to_vec", &[&v, e]));
                        let nb = (len + 7) / 8;
                        let bytes: Vec<u8> = (0..nb + 2).map(|_| rng.next() as u8).collect();
                        emit(line("read", &[ty.tag, &bytes_token(&bytes), &s(len), e]));
                        emit(line("from_bytes", &[ty.tag, &bytes_token(&bytes[..nb]), e]));
                    }
                }
                "C14" => { for k in ["b", "o", "x", "X"] { emit(line("fmt", &[&v, k])); } if len <= 520 && ty.kind == Kind::D { emit(line("fmt", &[&v, "d"])); } }
                "C10" => { emit(line("hash", &[&v])); }
                "C16" => {
                    emit(line("counts", &[&v]));
                    let k = rng.below(len);
                    let mut lo = vec![false; len]; for i in 0..k { lo[i] = true; }
                    emit(line("counts", &[&vec_token(&ty, &lo, 1, false)]));
                    lo.reverse();
                    emit(line("counts", &[&vec_token(&ty, &lo, 0, false)]));
                }
                "C09" => {
                    let wl = len - rng.below(70);
                    let w = long_vec(rng, &ty, wl);
                    emit(line("cmpall", &[&v, &w]));
                    emit(line("cmpall", &[&v, &v]));
                }
                "C06" => { for k in [1usize, 64, len / 2, len - 1, len - 64, (len - 1).min(1000), (len - 1).min(1024), (len - 1).min(961), (len - 1).min(4095), len.saturating_sub(1000), len.saturating_sub(1023)] { emit(line("rotl", &[&v, &s(k)])); emit(line("rotr", &[&v, &s(k)])); } }
                "C05" => { emit(line("shl_in", &[&v, "1"])); emit(line("shr_in", &[&v, "1"])); }
                "C07" | "C03" | "C18" => {
                    let xl = LONG_LENS[rng.below(3)];
                    let x = long_vec(rng, &ty_of("D"), xl);
                    emit(line("append", &[&v, &x]));
                    emit(line("prepend", &[&v, &x]));
                    emit(line("insert", &[&v, &s(rng.below(len)), &x]));
                    emit(line("resize", &[&v, &s(len + 3000), "1"]));
                    emit(line("truncate", &[&v, &s(len / 2 + 1)]));
                    emit(line("push", &[&v, "1"]));
                }
                "C08" => {
                    let st = rng.below(len / 2);
                    emit(line("copy_range", &[&v, &s(st), &s(len - rng.below(len / 3))]));
                    emit(line("split_off", &[&v, &s(st)]));
                }
                "C12" => { emit(line("convert", &["D", &v])); emit(line("convert", &["A", &v])); }
                "C15" => {
                    let n = len / 4;
                    let str: String = (0..n).map(|_| char::from_digit(rng.below(16) as u32, 16).unwrap()).collect();
                    emit(line("from_hex", &[ty.tag, &chars_token(&str)]));
                    let bin: String = (0..len.min(9000)).map(|_| if rng.chance(1, 2) { '1' } else { '0' }).collect();
                    emit(line("from_binary", &[ty.tag, &chars_token(&bin)]));
                }
                "C17" => { emit(line("iter", &[&v, "0", &format!("nth:{},back,nthb:{},hint,next", len / 2, len / 3)])); }
                "C11" => { emit(line("to_uint", &[&v, "128"])); }
                _ => {}
            }
        }
    }
}

/// every family also observes / operates on vectors that were produced by short histories
fn with_produced(rng: &mut Rng, tier: &str, fam: &str, emit: Emit) {
    let n = scale(tier, 400);
    for _ in 0..n {
        let ty = *rng.pick(TYPES);
        let v = produced(rng, &ty, 200, emit);
        let len = tok_len(&v);
        match fam {
            "C09" => {
                let rt = *rng.pick(TYPES);
                let r = if rng.chance(1, 2) { produced(rng, &rt, 200, emit) } else { gen_vec(rng, &rt, 200) };
                emit(line("cmpall", &[&v, &r]));
                emit(line("cmpall", &[&r, &v]));
            }
            "C10" => { emit(line("hash", &[&v])); }
            "C13" => { emit(line("to_vec", &[&v, if rng.chance(1, 2) { "big" } else { "little" }])); }
            "C14" => { let k = ["b", "o", "x", "X", "d"][rng.below(5)]; if k != "d" || len <= 100 || rng.chance(1, 3) { emit(line("fmt", &[&v, k])); } }
            "C06" => { emit(line(if rng.chance(1, 2) { "rotl" } else { "rotr" }, &[&v, &s(rng.below(len + 1))])); }
            "C16" => { emit(line("counts", &[&v])); }
            "C17" => { emit(line("iter", &[&v, b(rng.chance(1, 3)), "next,back,nth:1,hint,nthb:0,last"])); }
            "C11" => { emit(line("to_uint", &[&v, ["8", "16", "32", "64", "128", "us"][rng.below(6)]])); }
            "C12" => { let tt = *rng.pick(TYPES); emit(line("convert", &[tt.tag, &v])); }
            "C02" => {
                let rt = *rng.pick(TYPES);
                let r = produced(rng, &rt, 120, emit);
                if len <= 200 { emit(line("divrem", &[&v, &r])); }
            }
            "C08" => {
                let st = rng.below(len + 1);
                emit(line("copy_range", &[&v, &s(st), &s(st + rng.below(len - st + 1))]));
                emit(line("split_off", &[&v, &s(rng.below(len + 1))]));
            }
            "C07" | "C19" | "C18" | "C03" => { let l = edit_step(rng, &ty, &v, fam == "C19"); emit(l); }
            "C05" => { emit(line("shl_in", &[&v, b(rng.chance(1, 2))])); }
            "C15" => {
                // format → parse round trip on the implementation's own output
                let k = ["b", "x", "X"][rng.below(3)];
                let out = emit(line("fmt", &[&v, k]));
                if let Some(tok) = out.strip_prefix("ok ") {
                    emit(line(if k == "b" { "from_binary" } else { "from_hex" }, &[if rng.chance(1, 2) { "D" } else { "A" }, tok]));
                }
            }
            _ => {}
        }
    }
}

pub fn generate(fam: &str, seed: u64, tier: &str, emit: Emit) {
    let mut rng = Rng::new(seed ^ fam.bytes().fold(0u64, |a, c| a.wrapping_mul(131).wrapping_add(c as u64)));
    let rng = &mut rng;
    match fam {
        "C02" => gen_c02(rng, tier, emit),
        "C09" => gen_c09(rng, tier, emit),
        "C03" => gen_c03(rng, tier, emit),
        "C05" => gen_c05(rng, tier, emit),
        "C06" => { gen_c06(rng, tier, emit); gen_c06_aligned(rng, emit); }
        "C07" => gen_c07(rng, tier, emit),
        "C08" => gen_c08(rng, tier, emit),
        "C10" => gen_c10(rng, tier, emit),
        "C11" => gen_c11(rng, tier, emit),
        "C12" => gen_c12(rng, tier, emit),
        "C13" => gen_c13(rng, tier, emit),
        "C14" => gen_c14(rng, tier, emit),
        "C15" => gen_c15(rng, tier, emit),
        "C16" => gen_c16(rng, tier, emit),
        "C17" => gen_c17(rng, tier, emit),
        "C18" => gen_c18(rng, tier, emit),
        "C19" => gen_c19(rng, tier, emit),
        f if f.starts_with("O") => { super::gen_ops::generate(&f[1..], seed, tier, emit); return; }
        _ => panic!("unknown family {fam}"),
    }
    with_produced(rng, tier, fam, emit);
    long_cases(rng, fam, emit);
}
