#!/bin/sh
# developer helper: run every family in both profiles and print the driver summary
for prof in debug release; do
for bf in "h_core C02" "h_core C03" "h_core C05" "h_core C06" "h_core C07" "h_core C08" "h_core C09" "h_core C10" "h_core C11" "h_core C12" "h_core C13" "h_core C14" "h_core C15" "h_core C16" "h_core C17" "h_core C18" "h_core C19" "h_core OC01" "h_core OC02" "h_core OC03" "h_core OC04" "h_core OC05" "h_forms C20"; do
  set -- $bf
  s=$(date +%s.%N)
  ./harness/target/$prof/$1 gen $2 ${SEED:-1} ${TIER:-quick} work/r_$1_$2_$prof.txt
  m=$(date +%s.%N)
  r=$(./lean/.lake/build/bin/drv < work/r_$1_$2_$prof.txt | tail -1)
  e=$(date +%s.%N)
  echo "$prof $1 $2 gen=$(echo "$m - $s" | bc)s drv=$(echo "$e - $m" | bc)s $r"
done; done
