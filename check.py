#!/usr/bin/env python3
"""check.py <Cxx> [--tier quick|thorough] [--replay FILE]

Decides one property of haxelion/bva:
  1. proof obligations: build the Lean property module, audit the axioms of every property theorem;
  2. the tie to /repo: build the Rust harness against the *current working tree* (dev and release),
     run generated cases on the real code, run the Lean driver (L1 model + L0 spec) on the same
     lines, compare;
  3. verdict (VIOLATION / KNOWN-FINDING lines, exit status) and evidence/<id>.json.
"""
import json, os, re, subprocess, sys, time, hashlib, shutil

ROOT = os.path.dirname(os.path.abspath(__file__))
LEAN = os.path.join(ROOT, "lean")
# developer overrides (used only by tools/seed_matrix.sh to evaluate seeded changes on a scratch copy of the repository)
HARN = os.environ.get("VERIF_HARNESS_DIR", os.path.join(ROOT, "harness"))
_SCRATCH = os.environ.get("VERIF_SCRATCH_DIR")
WORK = os.path.join(_SCRATCH, "work") if _SCRATCH else os.path.join(ROOT, "work")
REPLAYS = os.path.join(_SCRATCH, "replays") if _SCRATCH else os.path.join(ROOT, "replays")
EVID = os.path.join(_SCRATCH, "evidence") if _SCRATCH else os.path.join(ROOT, "evidence")
DRV = os.path.join(LEAN, ".lake", "build", "bin", "drv")
ALLOWED_AXIOMS = {"propext", "Classical.choice", "Quot.sound"}
FORBIDDEN = re.compile(r"\b(sorry|admit|native_decide|bv_decide|implemented_by|unsafe)\b|^\s*axiom\s|maxHeartbeats\s+0")

# property -> list of (harness binary, generator family)
FAMILIES = {
    "C01": [("h_core", "OC01")], "C02": [("h_core", "OC02"), ("h_core", "C02")], "C03": [("h_core", "C03"), ("h_core", "OC03")],
    "C04": [("h_core", "OC04")], "C05": [("h_core", "C05"), ("h_core", "OC05")], "C06": [("h_core", "C06")],
    "C07": [("h_core", "C07")], "C08": [("h_core", "C08")], "C09": [("h_core", "C09")],
    "C10": [("h_core", "C10")], "C11": [("h_core", "C11")], "C12": [("h_core", "C12")],
    "C13": [("h_core", "C13")], "C14": [("h_core", "C14")], "C15": [("h_core", "C15")],
    "C16": [("h_core", "C16")], "C17": [("h_core", "C17")], "C18": [("h_core", "C18")],
    "C19": [("h_core", "C19")], "C20": [("h_forms", "C20")],
}

TRUSTED_BASE = [
    "Lean 4.33 kernel; axioms propext, Classical.choice, Quot.sound only (audited per theorem on every run)",
    "L0 spec (lean/BvaModel/Spec.lean) and the theorem statements in lean/BvaProps say what the property says",
    "hand-written L1 model (lean/BvaModel) tied to /repo by this run's correspondence check (differential, sampled)",
    "Rust harness (public API of bva only), Lean driver, this script",
    "std pieces modelled by meaning: integer bit intrinsics, char::to_digit, read_exact/write_all on slices/Vec, Formatter::pad_integral, Hash for uN, allocation",
    "rustc/cargo monomorphise Bvf<I,N> uniformly in N; 64-bit little-endian target",
]


def sh(cmd, cwd=None, env=None, timeout=None):
    e = dict(os.environ)
    e["CARGO_NET_OFFLINE"] = "true"
    if env:
        e.update(env)
    p = subprocess.run(cmd, cwd=cwd, env=e, stdout=subprocess.PIPE, stderr=subprocess.STDOUT, text=True, timeout=timeout)
    return p.returncode, p.stdout


def fail_infra(msg, out=""):
    print(f"ERROR (verification machinery, not a verdict about bva): {msg}")
    if out:
        print(out[-4000:])
    sys.exit(2)


# ------------------------------------------------------------------------------------------------
# modules of end-to-end theorems (compositions of the refinement theorems with the L0 laws), built and axiom-audited with a property
SUPPLEMENT = {"C01": ["E2EArith"], "C07": ["E2EStruct"]}


def lean_obligations(prop, thorough):
    """build property module + driver, grep forbidden tokens, audit axioms. Returns dict."""
    t0 = time.time()
    extra = [m for m in SUPPLEMENT.get(prop, []) if os.path.exists(os.path.join(LEAN, "BvaProps", m + ".lean"))]
    rc, out = sh(["lake", "build", f"BvaProps.{prop}", "drv"] + [f"BvaProps.{m}" for m in extra], cwd=LEAN, timeout=3600)
    if rc != 0:
        return {"ok": False, "why": "lake build failed", "log": out, "theorems": [], "discharged": 0}
    # forbidden tokens (comments stripped line-wise)
    bad = []
    for d in ("BvaModel", "BvaProofs", "BvaProps"):
        for fn in sorted(os.listdir(os.path.join(LEAN, d))):
            if not fn.endswith(".lean"):
                continue
            txt = open(os.path.join(LEAN, d, fn)).read()
            txt = re.sub(r"/-.*?-/", "", txt, flags=re.S)
            for i, l in enumerate(txt.splitlines()):
                l2 = l.split("--")[0]
                if FORBIDDEN.search(l2):
                    bad.append(f"{d}/{fn}: {l.strip()}")
    if bad:
        return {"ok": False, "why": "forbidden token", "log": "\n".join(bad), "theorems": [], "discharged": 0}
    src = open(os.path.join(LEAN, "BvaProps", f"{prop}.lean")).read()
    names = re.findall(r"^theorem\s+(" + prop + r"_\w+)", src, flags=re.M)
    for m in extra:   # end-to-end compositions (refinement theorems + L0 laws) audited with this property
        names += re.findall(r"^theorem\s+(E2E_\w+)", open(os.path.join(LEAN, "BvaProps", m + ".lean")).read(), flags=re.M)
    os.makedirs(WORK, exist_ok=True)
    audit = os.path.join(WORK, f"Audit_{prop}.lean")
    with open(audit, "w") as f:
        f.write(f"import BvaProps.{prop}\n")
        for m in extra:
            f.write(f"import BvaProps.{m}\n")
        for n in names:
            f.write(f"#print axioms Bva.{n}\n")
    rc, out = sh(["lake", "env", "lean", audit], cwd=LEAN, timeout=1800)
    if rc != 0:
        return {"ok": False, "why": "axiom audit failed to run", "log": out, "theorems": names, "discharged": 0}
    axioms = {}
    for m in re.finditer(r"'Bva\.(\w+)' depends on axioms: \[([^\]]*)\]", out.replace("\n", " ")):
        axioms[m.group(1)] = set(a.strip() for a in m.group(2).split(",") if a.strip())
    for m in re.finditer(r"'Bva\.(\w+)' does not depend on any axioms", out):
        axioms[m.group(1)] = set()
    discharged = [n for n in names if n in axioms and axioms[n] <= ALLOWED_AXIOMS]
    res = {"ok": len(discharged) == len(names) and len(names) > 0, "why": "", "log": out,
           "theorems": names, "discharged": len(discharged),
           "axioms": {n: sorted(axioms.get(n, ["?"])) for n in names}, "lean_s": round(time.time() - t0, 1)}
    if not res["ok"]:
        res["why"] = "a property theorem is missing or uses a disallowed axiom"
    if thorough and res["ok"]:
        rc, out = 0, ""
        for mod in [prop] + extra:
            rc1, out1 = sh(["lake", "env", "leanchecker", f"BvaProps.{mod}"], cwd=LEAN, timeout=3600)
            rc, out = (rc or rc1), out + out1
        res["leanchecker_rc"] = rc
        if rc != 0:
            res["ok"] = False
            res["why"] = "leanchecker rejected the compiled module"
            res["log"] = out
    return res


def build_harness(bins):
    outs = {}
    for profile in ("dev", "release"):
        cmd = ["cargo", "build", "--offline"] + (["--release"] if profile == "release" else [])
        for b in bins:
            cmd += ["--bin", b]
        rc, out = sh(cmd, cwd=HARN, timeout=7200)
        if rc != 0:
            return False, out
        outs[profile] = out
    return True, ""


def bin_path(b, profile):
    return os.path.join(HARN, "target", "debug" if profile == "dev" else "release", b)


DIFF_RE = re.compile(r"^DIFF (\d+) \[([^\]]*)\] (.*?) \|\| model: (.*?) \|\| spec: (.*)$")


def run_family(prop, b, fam, profile, seed, tier):
    out_file = os.path.join(WORK, f"{prop}_{b}_{fam}_{profile}.txt")
    rc, out = sh([bin_path(b, profile), "gen", fam, str(seed), tier, out_file], timeout=7200)
    if rc != 0:
        # The harness catches panics per case, so a non-zero exit means one input made the implementation hang (watchdog,
        # status 3, input in <out>.hang) or killed the process (abort / stack overflow / allocation failure). Re-run with a
        # trace to learn which input; if the re-run succeeds it was the environment, not the code.
        killer, how = None, None
        if rc == 3 and os.path.exists(out_file + ".hang"):
            killer, how = open(out_file + ".hang").read().strip(), "does not return (no result within the per-case time limit)"
        else:
            trace = out_file + ".trace"
            rc2, out2 = sh([bin_path(b, profile), "gen", fam, str(seed), tier, out_file], timeout=7200, env={"VERIF_TRACE": trace})
            if rc2 == 3 and os.path.exists(out_file + ".hang"):
                killer, how = open(out_file + ".hang").read().strip(), "does not return (no result within the per-case time limit)"
            elif rc2 != 0 and os.path.exists(trace):
                tr = open(trace).read().strip().splitlines()
                if not tr or tr[-1] == "#returned":
                    fail_infra(f"harness {b} gen {fam} ({profile}) died between cases (generator fault, exit status {rc2})", out + out2)
                killer, how = tr[0], f"kills the process (exit status {rc2}): " + (out2 or out)[-400:].strip()
            elif rc2 != 0:
                fail_infra(f"harness {b} gen {fam} ({profile}) exited {rc} and {rc2}", out + out2)
            else:
                fail_infra(f"harness {b} gen {fam} ({profile}) exited {rc} once and succeeded when re-run", out)
        d = {"n": 0, "kind": "spec abort", "line": killer + " => <no result>", "model": "(not evaluated)", "spec": how, "profile": profile, "bin": b}
        return out_file, [d], [], {"lines": 0, "ok": 0, "raw_identical": 0, "diffs": 1, "bad": 0}
    # the driver is single-threaded: split the case file and run several drivers in parallel
    with open(out_file) as f:
        lines = f.readlines()
    nchunks = max(1, min(12, len(lines) // 4000))
    procs = []
    for k in range(nchunks):
        chunk = "".join(lines[k::nchunks])          # striding spreads the expensive (long-vector) cases evenly
        pr = subprocess.Popen([DRV], stdin=subprocess.PIPE, stdout=subprocess.PIPE, stderr=subprocess.STDOUT, text=True)
        procs.append((pr, chunk))
    import threading
    outs = [None] * nchunks
    def feed(i):
        pr, chunk = procs[i]
        outs[i] = pr.communicate(chunk)[0]
    th = [threading.Thread(target=feed, args=(i,)) for i in range(nchunks)]
    for t in th: t.start()
    for t in th: t.join()
    diffs, bads, done = [], [], None
    for i, (pr, _) in enumerate(procs):
        if pr.returncode != 0:
            fail_infra(f"driver exited {pr.returncode}", outs[i] or "")
        for l in (outs[i] or "").splitlines():
            m = DIFF_RE.match(l)
            if m:
                diffs.append({"n": int(m.group(1)), "kind": m.group(2), "line": m.group(3), "model": m.group(4),
                              "spec": m.group(5), "profile": profile, "bin": b})
            elif l.startswith("BAD"):
                bads.append(l)
            elif l.startswith("DONE"):
                d1 = {k: int(v) for k, v in (kv.split("=") for kv in l.split()[1:])}
                done = d1 if done is None else {k: done[k] + d1[k] for k in d1}
    if done is None:
        fail_infra("driver produced no DONE line", "\n".join(o or "" for o in outs))
    return out_file, diffs, bads, done


def run_lines(lines, b, tag):
    """execute explicit input lines on the current tree (both profiles) and compare with model and spec; returns DIFF dicts"""
    tmp = os.path.join(WORK, f"{tag}_in.txt")
    open(tmp, "w").write("\n".join(lines) + "\n")
    diffs = []
    for profile in ("dev", "release"):
        rc, out = sh([bin_path(b, profile), "replay", tmp], timeout=600)
        p = subprocess.run([DRV], input=out, stdout=subprocess.PIPE, stderr=subprocess.STDOUT, text=True)
        for l in p.stdout.splitlines():
            m = DIFF_RE.match(l)
            if m:
                diffs.append({"n": int(m.group(1)), "kind": m.group(2), "line": m.group(3), "model": m.group(4),
                              "spec": m.group(5), "profile": profile, "bin": b})
    return diffs


def source_changed():
    """files of /repo/src whose content differs from the fingerprint recorded when the model was written"""
    try:
        fp = json.load(open(os.path.join(ROOT, "src_fingerprint.json")))["files"]
    except Exception:
        return []
    changed = []
    for name, h in fp.items():
        path = os.path.join(os.environ.get("VERIF_REPO", "/repo"), "src", name)
        try:
            cur = hashlib.sha256(open(path, "rb").read()).hexdigest()
        except OSError:
            cur = None
        if cur != h:
            changed.append(name)
    return changed


def load_known():
    kf = os.path.join(ROOT, "known_findings.txt")
    findings = []
    if os.path.exists(kf):
        for l in open(kf):
            l = l.strip()
            if l.startswith("finding:"):
                m = re.match(r"finding:\s+property=(C\d+)\s+match=(\S+)\s+(.*)", l)
                if m:
                    findings.append({"prop": m.group(1), "match": m.group(2), "what": m.group(3)})
    return findings


def nontrivial_stats(files):
    ops, types, distinct, total, samples = {}, {}, set(), 0, []
    vec_re = re.compile(r"^(F\w+|D|AF|AD):(\d+):")
    for fn in files:
        with open(fn) as f:
            for i, l in enumerate(f):
                total += 1
                lhs = l.split(" => ")[0].split(" ")
                op = lhs[0]
                ops[op] = ops.get(op, 0) + 1
                nz = False
                key = [op]
                for t in lhs[2:]:
                    m = vec_re.match(t)
                    if m:
                        tg = m.group(1)
                        types[tg] = types.get(tg, 0) + 1
                        if int(m.group(2)) > 0:
                            nz = True
                    elif t[:2] in ("c:", "b:", "t:") and not t.endswith(":-"):
                        nz = True          # a non-empty string / byte / bit-list argument of a constructor
                    elif (t.startswith("u") and ":" in t) or (t.isdigit() and int(t) > 0 and op in ("zeros", "ones", "repeat", "with_capacity")):
                        nz = True
                    key.append(t)
                if nz:
                    distinct.add(hashlib.blake2b(" ".join(key).encode(), digest_size=8).digest())
                if i % 997 == 3 and len(samples) < 12:
                    samples.append(l.strip()[:300])
    return total, len(distinct), ops, types, samples


def main():
    args = sys.argv[1:]
    if not args:
        print(__doc__)
        sys.exit(2)
    prop = args[0]
    tier = os.environ.get("VERIF_TIER", "quick")
    replay = None
    i = 1
    while i < len(args):
        if args[i] == "--tier":
            tier = args[i + 1]; i += 2
        elif args[i] == "--replay":
            replay = args[i + 1]; i += 2
        elif args[i] == "--no-lean":      # developer option: correspondence only
            os.environ["VERIF_NO_LEAN"] = "1"; i += 1
        else:
            i += 1
    seed = int(os.environ.get("VERIF_SEED", "1"))
    if prop not in FAMILIES:
        fail_infra(f"unknown property {prop}")
    os.makedirs(WORK, exist_ok=True)
    os.makedirs(REPLAYS, exist_ok=True)
    os.makedirs(EVID, exist_ok=True)
    t0 = time.time()
    fams = FAMILIES[prop]
    bins = sorted(set(b for b, _ in fams))

    if replay:
        ok, out = build_harness(bins)
        if not ok:
            fail_infra("cargo build failed", out)
        rc, _ = sh(["lake", "build", "drv"], cwd=LEAN)
        meta = json.load(open(replay)) if replay.endswith(".json") else None
        lines = meta["lines"] if meta else [l for l in open(replay).read().splitlines() if l.strip()]
        tmp = os.path.join(WORK, "replay_in.txt")
        open(tmp, "w").write("\n".join(lines) + "\n")
        for profile in ("dev", "release"):
            for b in (meta["bins"] if meta and "bins" in meta else bins):
                rc, out = sh([bin_path(b, profile), "replay", tmp])
                print(f"--- {b} ({profile}) on the current tree")
                print(out.strip())
                p = subprocess.run([DRV], input=out, stdout=subprocess.PIPE, text=True)
                print(p.stdout.strip())
        return

    notes = []
    # 1. proof obligations
    if os.environ.get("VERIF_NO_LEAN"):
        sh(["lake", "build", "drv"], cwd=LEAN)
        lean = {"ok": True, "why": "", "log": "", "theorems": [], "discharged": 0}
    else:
        lean = lean_obligations(prop, tier == "thorough")
    # 2. harness against the current tree
    ok, out = build_harness(bins)
    if not ok:
        # the tree no longer compiles against the harness: the tie cannot be established
        rp = os.path.join(REPLAYS, f"{prop}-build.json")
        json.dump({"property": prop, "what": "harness does not build against the current tree", "log": out[-6000:]}, open(rp, "w"), indent=1)
        print(f"VIOLATION property={prop} replay={rp} no-failing-input-found")
        write_evidence(prop, tier, seed, lean, 0, 0, {}, {}, [], 1, t0, ["harness build failed"])
        sys.exit(1)
    # 3. cases (change-directed amplification: when the source differs from what the model was written against,
    #    the quick tier runs with a 10x case budget; a changed source is information, never a violation)
    changed = source_changed()
    gen_tier = tier
    if changed and tier == "quick":
        gen_tier = "amp"
        notes.append("source files differ from the modelled revision: " + ", ".join(changed) + " -> quick tier amplified 10x")
    files, diffs, bads, totals = [], [], [], {"lines": 0, "ok": 0, "raw_identical": 0}
    corpus = os.path.join(ROOT, "corpus", f"{prop}.txt")
    for profile in ("dev", "release"):
        for b, fam in fams:
            f, d, bd, done = run_family(prop, b, fam, profile, seed, gen_tier)
            files.append(f); diffs += d; bads += bd
            for k in totals:
                totals[k] += done.get(k, 0)
    if bads:
        fail_infra("protocol error between harness and driver", "\n".join(bads[:20]))
    # 3b. the word-level kernel is tied by translation (C01 only): regenerate from utils.rs, re-check the equalities with the
    #     model; if they no longer check, search (cvc5/z3) for words on which the new definition differs and run them through the API
    kernel = None
    if prop in ("C01", "C02"):
        import kernel_tie
        kernel = kernel_tie.run(WORK, prop)
        lean["kernel_tie"] = kernel["status"]
        if kernel["status"] == "proved":
            notes.append("word kernel (the Integer::{mask,cadd,csub,wmul} functions of the 6 word types that this property's operations use): regenerated from utils.rs and proved equal to the model's")
        else:
            notes.append(f"word kernel tie by translation: {kernel['status']}; changed: {', '.join(kernel['changed'])}")
        if kernel["status"] == "counterexample":
            kd = run_lines(kernel["lines"], "h_core", "kernel")
            diffs += kd
            if not kd:
                kernel["status"] = "broken"
                kernel["log"] += "\nthe differing words were not observable through the public operators tried"
    total, distinct, ops, types, samples = nontrivial_stats(files)

    # 4. verdict
    known = [k for k in load_known() if k["prop"] == prop]
    violations = 0
    if not lean["ok"]:
        rp = os.path.join(REPLAYS, f"{prop}-proof.json")
        json.dump({"property": prop, "what": "proof obligation no longer checks: " + lean["why"],
                   "theorems": lean["theorems"], "log": lean["log"][-6000:]}, open(rp, "w"), indent=1)
        print(f"VIOLATION property={prop} replay={rp} no-failing-input-found")
        violations += 1
    new_diffs = []
    seen_known = set()
    for d in diffs:
        hit = None
        for k in known:
            if re.search(k["match"], d["line"]):
                hit = k
        if hit:
            seen_known.add((hit["match"], hit["what"]))
        else:
            new_diffs.append(d)
    for m, w in sorted(seen_known):
        print(f"KNOWN-FINDING: property={prop} {w}")
    if new_diffs:
        with_input = [d for d in new_diffs if "spec" in d["kind"].split()]
        pick = sorted(with_input or new_diffs, key=lambda d: len(d["line"]))[0]
        rp = os.path.join(REPLAYS, f"{prop}-{seed}-{tier}.json")
        by_kind = {}
        for d in new_diffs:
            by_kind[d["kind"]] = by_kind.get(d["kind"], 0) + 1
        json.dump({"property": prop, "seed": seed, "tier": tier, "bins": [pick["bin"]],
                   "what": ("the implementation's result differs from the L0 specification on this input"
                            if with_input else
                            "correspondence between the L1 model and the implementation no longer holds; no input on which the property fails was found"),
                   "lines": [pick["line"]], "profile": pick["profile"],
                   "implementation": pick["line"].split(" => ")[-1], "model": pick["model"], "spec_requires": pick["spec"],
                   "disagreements": len(new_diffs), "by_kind": by_kind,
                   "more": [d["line"] for d in sorted(new_diffs, key=lambda d: len(d["line"]))[1:15]],
                   "replay_cmd": f"python3 check.py {prop} --replay {rp}"}, open(rp, "w"), indent=1)
        print(f"VIOLATION property={prop} replay={rp}" + ("" if with_input else " no-failing-input-found"))
        violations += 1
    if kernel and kernel["status"] == "broken" and not violations:
        rp = os.path.join(REPLAYS, f"{prop}-kernel.json")
        json.dump({"property": prop, "what": "the tie by translation of the word-level kernel no longer checks and was not re-established: "
                   "the definitions regenerated from /repo/src/utils.rs are not provably equal to the model's (theorems Bva.Gen.*_eq in "
                   "lean/BvaProofs/GenWords.lean), the solvers neither found differing words nor proved equality, and the differential run found no failing input",
                   "theorems": ["Bva.Gen." + c + "_eq" for c in kernel["changed"]], "log": kernel["log"][-6000:]}, open(rp, "w"), indent=1)
        print(f"VIOLATION property={prop} replay={rp} no-failing-input-found")
        violations += 1
    write_evidence(prop, tier, seed, lean, total, distinct, ops, types, samples, violations, t0, notes, totals, len(seen_known))
    if violations:
        sys.exit(1)
    print(f"OK property={prop} tier={tier} seed={seed} theorems={lean['discharged']}/{len(lean['theorems'])} cases={total} distinct_nontrivial={distinct} raw_identical={totals['raw_identical']} wall={time.time()-t0:.1f}s")


def write_evidence(prop, tier, seed, lean, total, distinct, ops, types, samples, violations, t0, notes, totals=None, known_hits=0):
    try:
        claim = json.load(open(os.path.join(ROOT, "claims.json"))).get(prop, {}).get("text", "")
    except Exception:
        claim = ""
    ev = {
        "property_id": prop, "tier": tier if tier in ("quick", "thorough") else "quick", "seed": seed, "level": "proof",
        "coverage": {
            "obligations": max(1, len(lean["theorems"])), "discharged": lean["discharged"],
            "checker_cmd": "cd lean && lake build " + " ".join(f"BvaProps.{m}" for m in [prop] + SUPPLEMENT.get(prop, [])) + " && lake env lean <generated #print axioms file>" + ("".join(" && lake env leanchecker BvaProps." + m for m in [prop] + SUPPLEMENT.get(prop, [])) if tier == "thorough" else ""),
            "trusted_base": TRUSTED_BASE,
            "theorems": lean.get("axioms", {}),
            "what_is_proved_and_what_is_not": claim,
            "evaluations": total, "distinct_nontrivial": distinct,
            "rule": "cases are generated by the Rust harness (exhaustive small scopes + boundary lattice + random fill + histories continuing from the implementation's own state, dev and release profiles); a case is non-trivial when at least one vector operand has length > 0 (for constructors: a non-empty string/byte/bit argument, an integer argument, or a non-zero length); distinct = distinct (operation, operands) after removing the profile flag",
            "samples": samples or ["(no cases)"],
            "traces_validated_against_impl": total,
            "raw_storage_identical_to_model": (totals or {}).get("raw_identical", 0),
            "operations": ops, "operand_types": types,
            "profiles": ["dev (debug assertions, overflow checks)", "release"],
            "known_findings_seen": known_hits,
        },
        "assumptions": TRUSTED_BASE + notes,
        "wall_s": round(time.time() - t0, 1), "violations": violations,
    }
    json.dump(ev, open(os.path.join(EVID, f"{prop}.json"), "w"), indent=1)


if __name__ == "__main__":
    main()
